"""C17 - audio playback delivers every sample once, in order, and always shuts down.

M1  TLC: spec/io/AudioIO.tla (PlusCal, one label per shared-state access): every interleaving of Main
    (bounded control history, then close, then a play that must raise) and the players; safety invariants
    and the liveness property CloseReturns under weak fairness.
M4  deterministic scheduler (harness/sched.py): the unmodified lazy_io runs over shim threading and a fake
    PyAudio backend, one thread at a time.
M2  spec -> code: behaviours of the coarse-grained relation CNext (TLC state graph, edge cover by maximal
    paths) are replayed as control programs + schedules; the projection of the real shared state is compared
    with the spec state after every visible operation.
M3  code -> spec: random / PCT-style schedules with random control histories; the event log is validated by
    TLC (spec/trace/AudioIOTrace.tla), invisible steps inferred.
Direct monitors on every execution state the property's own wording (bytes per device stream, closed
streams, terminate once, no thread alive, play raises, close returns).
"""
import os
import sys
import struct

import common
import sched as schedmod
import tlaval
import tlc
import tracecheck

CHUNK = 2            # frames per chunk in the harness runs
STYLES = ("explicit", "with", "with-exc")   # how the caller closes the manager


class Audio(list):
    """The samples of one player, with the number of channels it is played with (a chunk is CHUNK frames, that is
    CHUNK * channels samples)."""
    channels = 1


def audio_for(player, nchunks, short_tail, channels=1):
    """Distinct sample values per player; `short_tail` leaves the last chunk partly filled (zero padding)."""
    n = nchunks * CHUNK * channels - (1 if (short_tail and nchunks > 0) else 0)
    a = Audio(float(100 * player + i + 1) for i in range(n))
    a.channels = channels
    return a


def expected_bytes(audio):
    ch = getattr(audio, "channels", 1)
    data = list(audio)
    if len(data) % (CHUNK * ch):
        data += [0.0] * (CHUNK * ch - len(data) % (CHUNK * ch))
    return [struct.pack("%df" % (CHUNK * ch), *data[i:i + CHUNK * ch]) for i in range(0, len(data), CHUNK * ch)]


class Execution(object):
    """One run of a control program under a scheduling strategy."""

    def __init__(self, h, program, audios, wait, choose, max_steps=3000, fine=False, faults=None, style="explicit"):
        self.h = h
        self.style = style
        self.program = program
        self.audios = audios
        self.wait = wait
        self.events = []
        self.obs = []              # observable events only (AudioObs.tla): backend calls, thread life, caller's calls
        self.players = []          # AudioThread objects in creation order
        self.io = None
        self.closed = False
        self.alive_at_close = None
        self.post_play_raised = None
        self.main_exc = None
        self.sched, self.backend = h.new_run(choose, max_steps=max_steps * (12 if fine else 1),
                                             on_step=self._on_step, fine=fine)
        self.result = None
        self.faults = dict(faults or {})          # player number -> chunk number whose device write raises
        self.backend.fail_at = {"stream%d" % p: k for p, k in self.faults.items()}

    # -- naming of shim objects ---------------------------------------------------------------------
    def _name(self, kind, obj):
        # (private names of the library are only used to NAME operations for the implementation-shaped model: a
        # renamed attribute gives ":?" names, i.e. model drift, never an error and never a verdict)
        io = self.io
        if kind in ("acquire", "release"):
            if io is not None and obj is getattr(io, "lock", None):
                return kind + ":mgr", 0
            if io is not None and obj is getattr(io, "halting", None):
                return kind + ":halt", 0
            for i, p in enumerate(self.players):
                if obj is getattr(p, "lock", None):
                    return kind + ":thr", i + 1
            return kind + ":?", 0
        if kind in ("set", "clear", "is_set", "wait"):
            for i, p in enumerate(self.players):
                if obj is getattr(p, "go", None):
                    return kind, i + 1
            return kind + ":?", 0
        if kind in ("start", "join"):
            for i, p in enumerate(self.players):
                if obj is p:
                    return kind, i + 1
            return kind, 0
        if kind in ("stop_stream", "start_stream", "close", "write"):
            for i, s in enumerate(self.backend.streams):
                if obj is s:
                    return kind, i + 1
            return kind, 0
        return kind, 0

    def projection(self):
        io = self.io
        np_ = len(self.audios)
        ps = self.players
        b = self.backend

        def col(f, default):
            out = []
            for i in range(np_):
                try:
                    out.append(f(i) if i < len(ps) else default)
                except AttributeError:          # a private attribute was renamed: the projection drifts, no error
                    out.append(None)
            return out
        return {
            "go": col(lambda i: bool(ps[i].go.flag), True),
            "halting": col(lambda i: bool(ps[i].halting), False),
            "finished": bool(getattr(io, "finished", None)) if io is not None else False,
            "nthreads": len(getattr(io, "_threads", ())) if io is not None else 0,
            "sstate": [b.streams[i].state if i < len(b.streams) else "none" for i in range(np_)],
            "nwritten": [len(b.streams[i].chunks) if i < len(b.streams) else 0 for i in range(np_)],
            "terminated": b.terminated,
            "alive": col(lambda i: bool(ps[i].is_alive()), False),
        }

    def _on_step(self, s, ts, op):
        kind, obj = op
        if kind == "line":
            return
        if kind == "start" and obj not in self.players:
            self.players.append(obj)
        if ts.tid == 0 and kind in ("begin", "end"):
            return
        name, tgt = self._name(kind, obj)
        if kind == "write" and getattr(obj, "fault_now", False):
            name = "write-fault"
        self.events.append({"proc": ts.tid, "op": name, "obj": tgt if ts.tid == 0 else 0,
                            "after": self.projection()})
        self._observe(ts, kind, name, obj)

    def _observe(self, ts, kind, name, obj):
        """Projection on what a backend / the caller can see; no lock, flag or list of the library is named."""
        b = self.backend
        if kind == "open":
            self.obs.append({"k": "open", "t": len(b.streams), "n": 0})
        elif kind in ("stop_stream", "start_stream", "close", "write"):
            t = b.streams.index(obj) + 1 if obj in b.streams else 0
            if name == "write-fault":
                self.obs.append({"k": "write-fault", "t": t, "n": 0})
            elif kind == "write":
                # which chunk of the played iterable these bytes are (0: none of them / wrong frame count)
                exp = expected_bytes(self.audios[t - 1]) if 0 < t <= len(self.audios) else []
                data, frames = obj.chunks[-1] if obj.chunks else (None, None)
                pos = [i + 1 for i, c in enumerate(exp) if c == data]
                n = 0
                if frames == CHUNK and pos:
                    want = sum(1 for e in self.obs if e["k"] == "write" and e["t"] == t) + 1
                    n = want if want in pos else pos[0]
                self.obs.append({"k": "write", "t": t, "n": n})
            else:
                self.obs.append({"k": "close_stream" if kind == "close" else kind, "t": t, "n": 0})
        elif kind == "terminate":
            self.obs.append({"k": "terminate", "t": 0, "n": 0})
        elif kind == "start":
            self.obs.append({"k": "start", "t": self.players.index(obj) + 1 if obj in self.players else 0, "n": 0})
        elif kind == "end" and ts.tid != 0:
            self.obs.append({"k": "end", "t": ts.tid, "n": 0})

    # -- the caller's thread ------------------------------------------------------------------------
    class _Leave(Exception):
        """raised by the caller's own code inside the with-block (style "with-exc")"""

    def _control(self, io, op):
        if op[0] == "play":
            try:
                audio = self.audios[len(self.players)]
                nch = getattr(audio, "channels", 1)
                kw = {} if nch == 1 else {"channels": nch}
                if (len(self.players) + nch) % 2 == 0:
                    # chunk_size left at its default, which "can be accessed (and changed) via chunks.size"
                    sys.modules[type(io).__module__].chunks.size = CHUNK
                    io.play(list(audio), **kw)
                else:
                    io.play(list(audio), chunk_size=CHUNK, **kw)
                self.obs.append({"k": "ret-play", "t": 0, "n": 0})
            except RuntimeError:
                self.obs.append({"k": "ret-play", "t": 0, "n": 1})
                raise
        elif op[0] == "pause":
            self.players[op[1] - 1].pause()
        elif op[0] == "resume":
            self.players[op[1] - 1].play()
        elif op[0] == "stop":
            self.obs.append({"k": "call-stop", "t": op[1], "n": 0})
            self.players[op[1] - 1].stop()

    def _after_close(self, io):
        self.obs.append({"k": "ret-close", "t": 0, "n": 0})
        self.closed = True
        self.alive_at_close = [bool(p.is_alive()) for p in self.players]
        try:
            io.play([0.0], chunk_size=CHUNK)
            self.post_play_raised = False
        except schedmod.SchedAbort:
            raise
        except Exception:                # "play raises": C17 does not name the class
            self.post_play_raised = True
        self.obs.append({"k": "ret-play", "t": 0, "n": 1 if self.post_play_raised else 0})

    def _main(self):
        """The caller.  style "explicit": io.close(); "with": the control calls sit in a with-block whose exit is
        the close; "with-exc": the same block is left by an exception of the caller's own code.  In every style a
        second, explicit close() follows (it finds `finished` set) and play() must raise after each."""
        mod = self.h.mod
        ops = [op for op in self.program if op[0] != "close"]
        try:
            if self.style == "explicit":
                io = mod.AudioIO(wait=self.wait)
                self.io = io
                for op in ops:
                    self._control(io, op)
                self.obs.append({"k": "call-close", "t": 0, "n": 0})
                io.close()
            else:
                try:
                    with mod.AudioIO(wait=self.wait) as io:
                        self.io = io
                        for op in ops:
                            self._control(io, op)
                        self.obs.append({"k": "call-close", "t": 0, "n": 0})      # leaving the block closes
                        if self.style == "with-exc":
                            raise Execution._Leave()
                except Execution._Leave:
                    pass
            self._after_close(io)
            self.obs.append({"k": "call-close", "t": 0, "n": 0})
            if len(self.program) % 2:
                io.terminate()                  # "Same as close"
            else:
                io.close()
            self._after_close(io)
        except schedmod.SchedAbort:
            raise
        except BaseException as ex:
            self.main_exc = ex

    def run(self):
        # cyclic garbage (earlier Execution objects and their AudioIO, whose __del__ calls close()) must not be
        # collected inside a managed thread: with line tracing on, the __del__ frames would become scheduling
        # points in the middle of whatever that thread was doing
        import gc
        gc.disable()          # (collections happen between runs, in the unmanaged driver thread)
        try:
            self.sched.spawn("main", self._main)
            self.result = self.sched.run()
        finally:
            gc.enable()
        if self.io is not None:
            # an abandoned run leaves threads registered; AudioIO.__del__ (run by the GC) would call close()
            # on it outside any scheduler and spin on the dead thread list
            self.io.finished = True
        left = self.sched.join_os_threads()
        if left:
            raise tlc.MachineryError("scheduler could not unwind %d OS threads" % len(left))
        return self.result

    def obs_record(self):
        """The observation sequence for the property-level judge (spec/trace/AudioObsTrace.tla)."""
        return {"np": len(self.audios), "chunks": [len(expected_bytes(a)) for a in self.audios],
                "wait": bool(self.wait), "evs": list(self.obs)}

    # -- the property's own wording, checked on every execution ------------------------------------
    def monitors(self):
        """Returns list of (clause, detail) violated."""
        bad = []
        b = self.backend
        if self.main_exc is not None:
            bad.append(("caller-exception", repr(self.main_exc)))
        for t in self.sched.order[1:]:
            if t.exc is not None and not (isinstance(t.exc, IOError) and "injected" in str(t.exc)):
                bad.append(("player-exception", repr(t.exc)))
        if self.result == "deadlock":
            bad.append(("close-never-returns", {"blocked": self.sched.deadlock}))
        if self.result == "steps":
            bad.append(("close-never-returns", "step bound exceeded"))
        if b.bad_write:
            bad.append(("write-to-stream-not-open", b.bad_write))
        for i, st in enumerate(b.streams):
            exp = expected_bytes(self.audios[i]) if i < len(self.audios) else []
            got = [c[0] for c in st.chunks]
            # excused: the CALLER stopped this player, its device failed, or close(wait=False) stops everybody
            user_stopped = any(e["k"] == "call-stop" and e["t"] == i + 1 for e in self.obs)
            stopped = user_stopped or st.failed or (not self.wait)
            if any(c[1] != CHUNK for c in st.chunks):
                bad.append(("chunk-frames", i + 1))
            if got != exp[:len(got)]:
                bad.append(("chunks-not-a-prefix-in-order", {"player": i + 1, "got": len(got)}))
            elif self.result == "done" and self.closed and not stopped and got != exp:
                if self.wait or i >= len(self.players):
                    bad.append(("chunks-lost", {"player": i + 1, "got": len(got), "want": len(exp)}))
        if self.closed:
            if any(st.state != "closed" for st in b.streams):
                bad.append(("stream-open-after-close", [st.label for st in b.streams if st.state != "closed"]))
            if b.terminated != 1:
                bad.append(("terminate-count", b.terminated))
            if self.alive_at_close and any(self.alive_at_close):
                bad.append(("thread-alive-after-close", self.alive_at_close))
            if self.post_play_raised is False:
                bad.append(("play-after-close-did-not-raise", None))
        return bad


# ==================================================================================================
# strategies
# ==================================================================================================
def random_choice(rng):
    def choose(s, enabled):
        return rng.choice(enabled)
    return choose


def pct_choice(rng, nthreads, depth, est_len):
    """PCT: random priorities, `depth` priority change points."""
    prio = {}
    changes = sorted(rng.randrange(1, max(2, est_len)) for _ in range(depth))
    low = [0]

    def choose(s, enabled):
        for t in enabled:
            if t.tid not in prio:
                prio[t.tid] = rng.random() + 1.0
        if changes and s.steps >= changes[0]:
            changes.pop(0)
            best = max(enabled, key=lambda t: prio[t.tid])
            low[0] -= 1
            prio[best.tid] = low[0]
        return max(enabled, key=lambda t: prio[t.tid])
    return choose


def random_program(rng, np_, maxctl, wait):
    prog = []
    started = 0
    paused = set()
    stopped = set()
    for _ in range(rng.randint(1, maxctl)):
        ops = []
        if started < np_:
            ops += ["play"] * 3
        if started:
            ops += ["pause", "resume", "stop"]
        op = rng.choice(ops)
        if op == "play":
            started += 1
            prog.append(("play", started))
        else:
            t = rng.randint(1, started)
            prog.append((op, t))
            if op == "pause":
                paused.add(t)
            elif op == "resume":
                paused.discard(t)
            else:
                stopped.add(t)
    if wait:
        for t in sorted(paused - stopped):   # the wait=True environment assumption
            prog.append(("resume", t))
    prog.append(("close",))
    return prog


# ==================================================================================================
# M1: the design
# ==================================================================================================
def m1(ctx):
    # *_fault_* configurations: a device write may raise once per player (Faults = TRUE)
    main_cfgs = ("AudioIO_fixed_nowait.cfg", "AudioIO_fixed_wait.cfg", "AudioIO_fault_nowait.cfg",
                 "AudioIO_fault_wait.cfg",
                 # three players, one chunk each, four control calls (~1e6 states each)
                 "AudioIO_np3c4_nowait.cfg", "AudioIO_np3c4_wait.cfg", "AudioIO_np3fault_nowait.cfg") \
        if ctx.thorough else \
        ("AudioIO_q_nowait.cfg", "AudioIO_q_wait.cfg", "AudioIO_qfault_nowait.cfg", "AudioIO_qfault_wait.cfg")
    sens_cfgs = (("AudioIO_sens_stop.cfg", ("temporal",)), ("AudioIO_sens_join.cfg", ("NoThreadAlive",)),
                 ("AudioIO_sens_fault.cfg", ("temporal",))) \
        if ctx.thorough else (("AudioIO_qsens_stop.cfg", ("temporal",)), ("AudioIO_qsens_join.cfg", ("NoThreadAlive",)),
                              ("AudioIO_qsens_fault.cfg", ("temporal",)))
    # the property-level specification on its own: its guards imply the promise read off its state
    for cfg in ("AudioObs.cfg", "AudioObs_nowait.cfg"):
        r = tlc.require_ok(tlc.run("AudioObs", cfg, coverage=False), "AudioObs " + cfg)
        ctx.add_tlc(r, "AudioObs %s: property-level specification over observable events (invariants follow "
                       "from its guards)" % cfg)
    # the implementation-shaped model: its own invariants, liveness, and PROPERTY ObsRefined (refinement)
    for cfg in main_cfgs:
        r = tlc.run("AudioIO", cfg, coverage=True)
        tlc.require_ok(r, "AudioIO " + cfg, need_actions=("p1w", "p3", "p5", "p5h", "c7", "c8j", "st3", "pa2", "re2"))
        ctx.add_tlc(r, "AudioIO %s: all interleavings, safety + CloseReturns under weak fairness" % cfg)
    # sensitivity: the two defects of the pinned commit must be visible to the model
    for cfg, want in sens_cfgs:
        r = tlc.run("AudioIO", cfg, coverage=False)
        if r.violated not in want:
            raise tlc.MachineryError("sensitivity run %s: expected violation %s, got rc=%s violated=%s" %
                                     (cfg, want, r.rc, r.violated))
        ctx.tlc_runs.append({"what": "sensitivity %s: %s violated as expected" % (cfg, r.violated),
                             "distinct": r.distinct, "generated": r.generated})


# ==================================================================================================
# M2: spec -> code
# ==================================================================================================
KIND = {}
for labs, kind in (("mp1 c2 ap1 p10", "acquire:mgr"), ("mp6 mpE c3r c3s ap3 p11r", "release:mgr"),
                   ("c0", "acquire:halt"), ("c10", "release:halt"), ("pa1 re1 st1 cs1 p8", "acquire:thr"),
                   ("pa3 re3 st4 cs4 p12", "release:thr"), ("pa2", "clear"), ("re2 st3 cs3", "set"),
                   ("mp3", "open"), ("mp5", "start"), ("c7 c8j", "join"), ("c9", "terminate"), ("p0", "begin"),
                   ("p1w", "write"), ("p2", "is_set"), ("p3", "stop_stream"), ("p5", "wait"),
                   ("p6", "start_stream"), ("p9c", "close"), ("p13", "end")):
    for lab in labs.split():
        KIND[lab] = kind
CALL = {"mp1": "play", "pa1": "pause", "re1": "resume", "st1": "stop", "c0": "close"}


def spec_proj(st, np_):
    def seq(v):
        return list(v) if isinstance(v, tuple) else [v[i] for i in sorted(v)]
    return {"go": seq(st["go"]), "halting": seq(st["halting"]), "finished": st["finished"],
            "nthreads": len(st["threads"]), "sstate": seq(st["sstate"]),
            "nwritten": [len(w) for w in seq(st["written"])], "terminated": st["terminated"],
            "alive": seq(st["alive"])}


def step_of(a, b):
    """(process, label executed) of the transition between two spec states."""
    ch = [p for p in a["pc"] if a["pc"][p] != b["pc"][p]]
    if len(ch) != 1:
        same = [p for p in a["pc"] if a["pc"][p] in ("p1", "ctl", "c2", "c8a")]   # self loops keep pc
        if len(ch) == 0 and len(same) >= 1:
            # a label that returns to itself (does not occur in this model); be explicit
            raise tlc.MachineryError("ambiguous self-loop step")
        raise tlc.MachineryError("cannot attribute step: %s" % ch)
    return ch[0], a["pc"][ch[0]]


def cover_paths(nodes, inits, edges):
    """Maximal paths from Init covering every edge at least once."""
    out = {}
    for (u, v) in edges:
        out.setdefault(u, []).append(v)
    # distance to a terminal node
    rev = {}
    for (u, v) in edges:
        rev.setdefault(v, []).append(u)
    term = [n for n in nodes if n not in out]
    dist = {n: 0 for n in term}
    q = list(term)
    while q:
        nq = []
        for n in q:
            for u in rev.get(n, ()):
                if u not in dist:
                    dist[u] = dist[n] + 1
                    nq.append(u)
        q = nq
    # BFS tree
    par = {inits[0]: None}
    order = [inits[0]]
    for n in order:
        for v in out.get(n, ()):
            if v not in par:
                par[v] = n
                order.append(v)
    uncovered = set(edges)
    paths = []
    for n in order:
        for v in out.get(n, ()):
            if (n, v) not in uncovered:
                continue
            pre = []
            x = n
            while par[x] is not None:
                pre.append(x)
                x = par[x]
            pre.append(x)
            pre.reverse()
            path = pre + [v]
            cur = v
            while cur in out:
                cand = out[cur]
                unc = [w for w in cand if (cur, w) in uncovered and w in dist]
                pool = unc if unc else [w for w in cand if w in dist]
                if not pool:
                    raise tlc.MachineryError("node without a way to termination (liveness broken in the model?)")
                nxt = min(pool, key=lambda w: dist[w])
                path.append(nxt)
                cur = nxt
            for a, b in zip(path, path[1:]):
                uncovered.discard((a, b))
            paths.append(path)
    return paths


def script_choice(script, ex, errors):
    """Follow the schedule of a spec behaviour.  When the code does not offer the scripted operation (the
    implementation-shaped model does not describe it any more) the divergence is recorded and the run is completed
    under a fair rotation, so that the property-level judgement still sees a whole execution."""
    pos = [0]
    turn = [0]

    def fallback(enabled):
        turn[0] += 1
        return sorted(enabled, key=lambda t: t.tid)[turn[0] % len(enabled)]

    def choose(s, enabled):
        for t in enabled:
            if t.tid == 0 and t.pending[0] in ("begin", "end"):     # the caller's own thread start/end
                return t
        if errors:
            return fallback(enabled)
        if pos[0] >= len(script):
            errors.append(("extra-step", [(t.tid, t.pending[0]) for t in enabled]))
            return fallback(enabled)
        proc, kind = script[pos[0]]
        for t in enabled:
            if t.tid == proc:
                name, _ = ex._name(*t.pending)
                if name != kind:
                    errors.append(("op-mismatch", {"at": pos[0], "proc": proc, "spec": kind, "code": name}))
                    return fallback(enabled)
                pos[0] += 1
                return t
        errors.append(("not-enabled", {"at": pos[0], "proc": proc, "spec": kind,
                                       "enabled": [(t.tid, ex._name(*t.pending)[0]) for t in enabled]}))
        return fallback(enabled)
    choose.pos = pos
    return choose


def m2(ctx, h, cfg, wait, limit=None):
    d = tlc.scratch_dir("c17g")
    dot = os.path.join(d, "g.dot")
    r = tlc.require_ok(tlc.run("AudioIO", cfg, dump_dot=dot, coverage=False), "AudioIO coarse graph " + cfg)
    ctx.add_tlc(r, "AudioIO %s: coarse-grained relation CNext, full state graph for replay" % cfg)
    nodes, inits, edges = tlaval.read_dot(dot)
    edges = sorted(set((u, v) for u, v, _ in edges))
    paths = cover_paths(nodes, inits, edges)
    ctx.log("%s: %d states, %d transitions, covered by %d maximal behaviours" % (cfg, len(nodes), len(edges), len(paths)))
    if limit and len(paths) > limit:
        step = len(paths) / float(limit)
        paths = [paths[int(i * step)] for i in range(limit)]
    nch = [nodes[inits[0]]["written"] and 0]
    first = nodes[inits[0]]
    np_ = len(first["go"])
    nchunks = CHUNKS_OF[cfg]
    audios = [audio_for(i + 1, nchunks[i], i % 2 == 0) for i in range(np_)]
    nbad = nviol = 0
    obs_runs = []
    for pi, path in enumerate(paths):
        sts = [nodes[n] for n in path]
        program, script, checkpoints = [], [], []
        for a, b in zip(sts, sts[1:]):
            proc, lab = step_of(a, b)
            if proc == 0 and lab == "ctl" and b["pc"][0] in CALL:
                call = CALL[b["pc"][0]]
                program.append((call, b["tgt"]) if call != "close" else ("close",))
            if lab in KIND:
                script.append((proc, KIND[lab]))
                checkpoints.append(None)
            if checkpoints and all(b["pc"][q] not in INVISIBLE for q in b["pc"]):
                checkpoints[-1] = spec_proj(b, np_)
        errors = []
        if pi % 5 == 4:
            audios_pi = [audio_for(i + 1, nchunks[i], i % 2 == 0, channels=2 if i == 0 else 1) for i in range(np_)]
        else:
            audios_pi = audios
        ex = Execution(h, program, audios_pi, wait, None, style=STYLES[pi % 3])
        ch = script_choice(script, ex, errors)
        ex.sched.choose = ch
        ex.run()
        ctx.count(1, nontrivial_key=("m2", cfg, pi) if (len(program) >= 3) else None)
        if pi == 0:
            ctx.sample({"cfg": cfg, "program": program, "schedule": ["%d:%s" % x for x in script][:50]})
        detail = None
        if errors:
            detail = {"clause": errors[0][0], "info": errors[0][1]}
        elif ex.result != "done" or ch.pos[0] != len(script):
            detail = {"clause": "did-not-finish", "info": {"result": ex.result, "consumed": ch.pos[0], "script": len(script)}}
        else:
            # compare the projection after every visible operation (main's begin/end are not logged)
            evs = ex.events
            if len(evs) != len(script):
                detail = {"clause": "event-count", "info": {"events": len(evs), "script": len(script)}}
            else:
                for k, (e, cp) in enumerate(zip(evs, checkpoints)):
                    if cp is not None and e["after"] != cp:
                        diff = [f for f in cp if cp[f] != e["after"][f]]
                        detail = {"clause": "state-" + diff[0], "info": {"at": k, "op": script[k], "spec": cp,
                                                                        "code": e["after"]}}
                        break
        info = {"cfg": cfg, "program": program, "wait": wait, "chunks": list(nchunks),
                "schedule": ["%d:%s" % x for x in script]}
        # what the property states, on this execution (whether or not the model still describes the code)
        for clause, mdetail in ex.monitors():
            nviol += 1
            ctx.violation("C17:" + clause, dict(info, detail=mdetail, result=ex.result))
        obs_runs.append((dict(info, result=ex.result), ex.obs_record()))
        if detail is not None:
            # the code left the behaviour TLC enumerated: the implementation-shaped model is out of date (or the
            # code is wrong in a way the property-level judgement of this same execution reports)
            nbad += 1
            ctx.drift("C17:replay:%s" % detail["clause"], dict(info, detail=detail))
        else:
            ctx.traces += 1
    judge_obs(ctx, obs_runs, "M2 " + cfg)
    ctx.log("M2 %s: %d behaviours replayed, %d not following the model, %d monitor alarms" % (cfg, len(paths), nbad, nviol))


INVISIBLE = {"mp2", "mp4", "st2", "cs2", "c1", "c3", "c4", "c8", "c8a", "ap2", "p1", "p1h", "p4", "p5h", "p9",
             "p11", "p11b", "ctl", "Fin"}
CHUNKS_OF = {"AudioIO_coarseq_nowait.cfg": (2, 1), "AudioIO_coarseq_wait.cfg": (2, 1),
             "AudioIO_coarse_nowait.cfg": (2, 1), "AudioIO_coarse_wait.cfg": (2, 1)}


# ==================================================================================================
# growth beyond C17: the recording side (spec/io/RecStream.tla), single-threaded, full graph + transition cover
# ==================================================================================================
def run_rec(h, ops, cs=2):
    """Execute record / read / stop / close calls on the real AudioIO over the fake backend (one thread)."""
    out = []
    state = {}

    def main():
        io = h.mod.AudioIO()
        state["io"] = io
        recs = []
        for op in ops:
            try:
                if op[0] == "record":
                    recs.append(io.record(chunk_size=cs))
                    ret = "ok"
                elif op[0] == "read":
                    v = next(iter(recs[op[1] - 1]))
                    ret = int(v) if float(v).is_integer() else "bad-sample"
                elif op[0] == "stop":
                    recs[op[1] - 1].stop()
                    ret = "ok"
                else:
                    io.close()
                    ret = "ok"
            except StopIteration:
                ret = "StopIteration"
            except schedmod.SchedAbort:
                raise
            except Exception as ex:
                ret = "exc:" + type(ex).__name__
            b = h.backend_ref[0]
            out.append((ret, {"flag": [bool(r.recording) for r in recs], "regs": len(io._recordings),
                              "dev": [st.reads for st in b.streams], "closes": [st.nclose for st in b.streams],
                              "term": b.terminated, "fin": bool(io.finished)}))
    # single-threaded: the calls run in this very thread (shim locks do not park an unmanaged thread), under a
    # SIGALRM watchdog so that a call that never returns is an observation, not a hung check
    import signal

    class Hang(Exception):
        pass

    def alarm(signum, frame):
        raise Hang()
    h.new_run(lambda sc, en: en[0], max_steps=5000)
    signal.signal(signal.SIGALRM, alarm)
    signal.setitimer(signal.ITIMER_REAL, 3.0)
    res = "done"
    try:
        main()
    except Hang:
        res = "hang"
        out.append(("hang", {}))
    finally:
        signal.setitimer(signal.ITIMER_REAL, 0)
        if state.get("io") is not None:
            state["io"].finished = True
            state["io"]._recordings = []
    return res, out


def rec_replay(ctx, h, prefix="X06"):
    import graphcover
    d = tlc.scratch_dir("c17r")
    dot = os.path.join(d, "g.dot")
    r = tlc.require_ok(tlc.run("RecStream", "RecStream.cfg", dump_dot=dot),
                       "RecStream", need_actions=("Record", "Read", "Stop", "Close"))
    ctx.add_tlc(r, "RecStream: recording generator / stop / close, full reachable graph")
    nodes, inits, edges = tlaval.read_dot(dot)
    parent, order, out = graphcover.cover(inits, edges)
    labels = [tlaval.parse_label(e[2]) for e in edges]

    def op_of(lab):
        name, args = lab
        return (name.lower(),) + tuple(args)
    nbad = 0
    for ei, (src, dst, lab) in enumerate(edges):
        path = graphcover.path_to(parent, src) + [ei]
        ops = [op_of(labels[i]) for i in path]
        res, obs = run_rec(h, ops)
        st = nodes[dst]
        n = sum(1 for x in st["st"] if x != "none")
        want = {"flag": list(st["flag"][:n]), "regs": len(st["regs"]), "dev": list(st["dev"][:n]),
                "closes": list(st["closes"][:n]), "term": st["term"], "fin": st["fin"]}
        ctx.count(1, nontrivial_key=("rec", ei) if len(ops) >= 3 else None)
        ok = res == "done" and len(obs) == len(ops) and obs[-1][0] == st["ret"] and obs[-1][1] == want
        if not ok:
            nbad += 1
            ctx.violation("%s:rec:%s" % (prefix, ops[-1][0]), {"calls": ops, "result": res, "expected_return": st["ret"],
                                                      "expected_state": want, "observed": obs[-1] if obs else None})
    ctx.traces += len(edges)
    ctx.log("recording side: %d states, %d transitions replayed on the real AudioIO.record/RecStream, %d differ"
            % (len(nodes), len(edges), nbad))


def tlaps(ctx):
    """Unbounded argument for the property-level specification (spec/proofs/AudioObsProofs.tla): for every number of
    players, chunk counts and history length the guards of AudioObs imply the promise.  It concerns the specification
    only (not the code), is re-run in the thorough tier and never changes the verdict: a proof that does not go
    through on a loaded machine is logged, the TLC runs on AudioObs.cfg stand on their own."""
    import shutil
    import subprocess
    import time
    if not shutil.which("tlapm"):
        ctx.extra["tlaps"] = "tlapm not found"
        return
    d = tlc.scratch_dir("c17p")
    for f in ("io/AudioObsDef.tla", "io/AudioObs.tla", "proofs/AudioObsProofs.tla"):
        shutil.copy(os.path.join(common.VERIF, "spec", f), d)
    t0 = time.time()
    try:
        p = subprocess.run(["tlapm", "--stretch", "4", "--toolbox", "0", "0", "AudioObsProofs.tla"], cwd=d,
                           stdout=subprocess.PIPE, stderr=subprocess.STDOUT, universal_newlines=True, timeout=1500)
        last = [l for l in p.stdout.splitlines() if "obligations" in l]
        res = last[-1].strip() if last else "no summary (rc=%d)" % p.returncode
    except subprocess.TimeoutExpired:
        res = "timeout"
    ctx.extra["tlaps"] = {"module": "spec/proofs/AudioObsProofs.tla", "result": res, "wall_s": round(time.time() - t0, 1)}
    ctx.log("TLAPS AudioObsProofs (guards of AudioObs imply the promise, unbounded): %s" % res)


# ==================================================================================================
def check(ctx):
    common.import_audiolazy()
    h = schedmod.Harness(common.REPO)
    m1(ctx)
    if ctx.thorough:
        tlaps(ctx)
        m2(ctx, h, "AudioIO_coarse_nowait.cfg", False)
        m2(ctx, h, "AudioIO_coarse_wait.cfg", True)
    else:
        m2(ctx, h, "AudioIO_coarseq_nowait.cfg", False)
        m2(ctx, h, "AudioIO_coarseq_wait.cfg", True)
    ctx.exhaustive = True
    ctx.rule = ("executions of the real lazy_io under the deterministic scheduler; distinct = distinct "
                "(control program, schedule) pairs; non-trivial = >= 2 players or >= 1 pause/stop")
    ctx.assumptions = ["with wait=True close() is not called while a player is paused and never resumed",
                       "fault model: at most one device write per player raises (IOError); anything else a "
                       "backend could do wrong is not modelled",
                       "default float sample format; the scheduler is the OS: pre-emption only at "
                       "synchronisation/backend operations"]
    nrand = 300 if not ctx.thorough else 4000
    m3(ctx, h, nrand)
    m3_fine(ctx, h, 30 if not ctx.thorough else 600)
    # (the recording side, spec/io/RecStream.tla, is the extension check X06: C17 states nothing about it)


CONFIGS = [(3,), (2, 1), (0, 2), (2, 2), (1, 2, 1), (3, 0, 2)]


def m3(ctx, h, count):
    rng = ctx.rng
    batches = {}
    seen = set()
    nviol = 0
    configs = CONFIGS if ctx.thorough else [(3,), (2, 1), (1, 2, 1)]
    obs_runs = []
    for k in range(count):
        nch = list(configs[k % len(configs)])
        np_ = len(nch)
        wait = (k // len(configs)) % 2 == 0
        audios = [audio_for(i + 1, nch[i], rng.random() < 0.5, channels=2 if (k + i) % 4 == 3 else 1)
                  for i in range(np_)]
        prog = random_program(rng, np_, 5, wait)
        if k % 2:
            choose = random_choice(rng)
        else:
            choose = pct_choice(rng, np_ + 1, rng.randint(0, 3), 60)
        faults = {}
        if rng.random() < 0.3:
            pl = rng.randint(1, np_)
            if nch[pl - 1] > 0:
                faults[pl] = rng.randint(1, nch[pl - 1])     # the device write of that chunk raises
        ex = Execution(h, prog, audios, wait, choose, faults=faults, style=STYLES[(k // 7) % 3])
        ex.run()
        sig = (tuple(prog), tuple((e["proc"], e["op"]) for e in ex.events))
        nontriv = np_ >= 2 or any(o[0] in ("pause", "stop") for o in prog)
        ctx.count(1, nontrivial_key=sig if (nontriv and sig not in seen) else None)
        seen.add(sig)
        if k < 2:
            ctx.sample({"program": prog, "wait": wait, "chunks": nch,
                        "schedule": ["%d:%s" % (e["proc"], e["op"]) for e in ex.events][:60]})
        for clause, detail in ex.monitors():
            nviol += 1
            ctx.violation("C17:" + clause, {"program": prog, "wait": wait, "chunks": nch, "detail": detail,
                                            "result": ex.result,
                                            "schedule": ["%d:%s" % (e["proc"], e["op"]) for e in ex.events]})
        key = (np_, tuple(nch), wait)
        batches.setdefault(key, []).append({"events": ex.events, "program": prog, "result": ex.result})
        obs_runs.append(({"program": prog, "wait": wait, "chunks": nch, "result": ex.result,
                          "schedule": ["%d:%s" % (e["proc"], e["op"]) for e in ex.events]}, ex.obs_record()))
    ctx.log("M3: %d executions, %d distinct schedules, %d monitor alarms" % (count, len(seen), nviol))
    ctx.extra["distinct_schedules"] = len(seen)
    judge_obs(ctx, obs_runs, "M3")
    validate(ctx, batches)


def m3_fine(ctx, h, count):
    """Line-level pre-emption: every source line of lazy_io is a scheduling point."""
    rng = ctx.rng
    batches = {}
    nviol = 0
    configs = [(2,), (1, 1), (2, 1)]
    obs_runs = []
    for k in range(count):
        nch = list(configs[k % len(configs)])
        np_ = len(nch)
        wait = (k // len(configs)) % 2 == 0
        audios = [audio_for(i + 1, nch[i], rng.random() < 0.5) for i in range(np_)]
        prog = random_program(rng, np_, 4, wait)
        choose = random_choice(rng) if k % 2 else pct_choice(rng, np_ + 1, rng.randint(1, 4), 400)
        faults = {1: 1} if (k % 5 == 4 and nch[0] > 0) else {}
        ex = Execution(h, prog, audios, wait, choose, fine=True, faults=faults, style=STYLES[(k // 3) % 3])
        ex.run()
        ctx.count(1, nontrivial_key=("fine", k))
        for clause, detail in ex.monitors():
            nviol += 1
            ctx.violation("C17:fine:" + clause, {"program": prog, "wait": wait, "chunks": nch, "detail": detail,
                                                 "result": ex.result, "steps": ex.sched.steps,
                                                 "schedule": ["%d:%s" % (e["proc"], e["op"]) for e in ex.events]})
        batches.setdefault((np_, tuple(nch), wait), []).append({"events": ex.events, "program": prog,
                                                                "result": ex.result})
        obs_runs.append(({"program": prog, "wait": wait, "chunks": nch, "result": ex.result, "fine": True,
                          "schedule": ["%d:%s" % (e["proc"], e["op"]) for e in ex.events]}, ex.obs_record()))
    ctx.log("fine-grained: %d executions with line-level pre-emption, %d monitor alarms" % (count, nviol))
    judge_obs(ctx, obs_runs, "fine-grained")
    validate(ctx, batches, fine=True)


def validate(ctx, batches, fine=False):
    """TLC judges the recorded executions against AudioIO (fixed variant = the intended behaviour)."""
    def nameable(r):
        for e in r["events"]:
            if e["op"].endswith(":?") or any(v is None or (isinstance(v, list) and None in v)
                                             for v in e["after"].values()):
                return False
        return True
    for bi, ((np_, nch, wait), allruns) in enumerate(sorted(batches.items())):
        runs = [r for r in allruns if nameable(r)]
        for r in allruns:
            if not nameable(r):
                # the library's private names moved: the implementation-shaped model cannot even read the execution
                ctx.drift("C17:trace:unnamed-operation", {"program": r["program"], "wait": wait, "chunks": list(nch)})
        if not runs:
            continue
        d = tlc.scratch_dir("c17t")
        root = os.path.join(d, "AudioIOTraceB%d.tla" % bi)
        with open(root, "w") as fh:
            fh.write("---- MODULE AudioIOTraceB%d ----\nEXTENDS AudioIOTrace\nBChunks == %s\n====\n"
                     % (bi, tlaval.to_tla(tuple(nch))))
        consts = {"NP": np_, "NChunks": "<- BChunks", "MaxCtl": 50, "Wait": "TRUE" if wait else "FALSE",
                  "StopWakes": "TRUE", "JoinAll": "TRUE", "Faults": "TRUE", "RunFinally": "TRUE"}
        traces = [{"events": r["events"]} for r in runs]
        acc, rej = tracecheck.run_traces(ctx, root, consts, traces,
                                         next_="TNextF" if fine else "TNext",
                                         invariants=(("AcceptedF",) if fine else ("Accepted",)) + SAFETY,
                                         what="C17 recorded %sexecutions np=%d chunks=%s wait=%s" %
                                         ("fine-grained " if fine else "", np_, nch, wait),
                                         pick="max", timeout=3000)
        ctx.traces += len(acc)
        for tid, info in sorted(rej.items()):
            r = runs[tid - 1]
            l, clause = info[0], info[1]
            ctx.drift("C17:trace:%s" % clause,
                          {"program": r["program"], "wait": wait, "chunks": list(nch), "result": r["result"],
                           "rejected_at_event": l, "clause": clause,
                           "events_around": [(e["proc"], e["op"], e["obj"]) for e in r["events"][max(0, l - 6):l + 1]],
                           "state_after": r["events"][l - 1]["after"] if 0 < l <= len(r["events"]) else None})
    ctx.log("trace validation against the implementation-shaped model: %d executions accepted so far" % ctx.traces)


def judge_obs(ctx, runs, what):
    """THE verdict on recorded executions: their observable events judged by the property-level specification
    AudioObs (spec/io/AudioObsDef.tla), whatever the library does inside."""
    if not runs:
        return
    recs = [r for _, r in runs]
    bad = tracecheck.run_records(ctx, "AudioObsTrace", {}, recs, what="C17 observable events (%s) judged by AudioObs"
                                 % what, chunk=2000)
    for i, info in sorted(bad.items()):
        meta, rec = runs[i - 1]
        clause, at = info[0], info[1]
        ctx.violation("C17:obs:%s" % clause,
                      dict(meta, clause=clause, refused_event=rec["evs"][at - 1] if 0 < at <= len(rec["evs"]) else None,
                           refused_at=at, observed=["%s%s%s" % (e["k"], ":%d" % e["t"] if e["t"] else "",
                                                                "#%d" % e["n"] if e["k"] == "write" else "")
                                                    for e in rec["evs"][:at]][-25:]))
    ctx.extra["observation_sequences_judged_by_AudioObs"] = ctx.extra.get("observation_sequences_judged_by_AudioObs", 0) + len(recs)
    ctx.log("%s: %d observation sequences judged by AudioObs, %d refused" % (what, len(recs), len(bad)))


SAFETY = ("InOrderOnce", "Complete", "NoWriteWhenNotOpen", "TerminateAtMostOnce", "AllClosed", "TerminatedOnce",
          "NoThreadAlive", "PlayRaisesAfterClose", "WaitsForAll")
