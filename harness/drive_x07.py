"""X07 (extension) - the memoisation decorator `audiolazy.lazy_misc.cached`, which no listed property mentions (the
window functions and several internal tables are built on it): the cache as a state machine over a history of
calls and of uses of the exposed dictionary `f.cache`.

M1  TLC: spec/core/Cached.tla, full reachable graph (2 decorated functions, 2 keys of which one raises, bounded
    invocations): invariants CallsAccounted / EntriesAreResults / FailureNotCached and the action properties
    NoRecompute / FirstResultSticks / MissComputesOnce / ReadsArePure / Independent.
M3  code -> spec: seeded random histories on 3 decorated functions x 4 keys (2 of them raising), 40 operations each,
    recorded from the real decorator and judged by TLC (spec/trace/CachedTrace.tla: the actions of Cached bound to
    the logged operation, the returned value and the full projected state compared after every step; the state
    invariants evaluated on every state of every recorded execution).
M2  every transition of that graph replayed on the real `cached` objects (shortest path from Init + the
    transition): what the call returns or raises and the projected state (entries of f.cache, invocation
    counters of the deliberately impure underlying functions) are compared with the successor state TLC computed.
    The argument tuples standing for the model's keys vary with the seed (empty tuple, several positional
    arguments, None, nested tuples, strings, frozensets).
"""
import os

import tracecheck
import common
import graphcover
import tlaval
import tlc

ARGSETS = [
    ((), (1, "x")),
    ((7,), (None, (1, 2))),
    ((2.5, -1), (frozenset([3]),)),
    (("a", "b", "c"), (0,)),
]
FAIL = {2}


class World(object):
    def __init__(self, cached, nf, args, fail=FAIL):
        self.args = args
        self.fail = fail
        self.key_of = {a: i + 1 for i, a in enumerate(args)}
        self.fns, self.st = [], []
        for i in range(nf):
            st = {"n": 0, "calls": {k: 0 for k in self.key_of.values()}, "alien": 0}
            self.st.append(st)
            self.fns.append(cached(self._make(st)))

    def _make(self, st):
        key_of = self.key_of
        FAIL = self.fail

        def func(*a):
            k = key_of.get(a)
            if k is None:
                st["alien"] += 1
                return "alien"
            st["n"] += 1
            st["calls"][k] += 1
            if k in FAIL:
                raise ValueError("no value for key %d" % k)
            return 10 * st["n"] + k
        return func

    def apply(self, op):
        name, f = op[0], self.fns[op[1] - 1]
        a = self.args[op[2] - 1] if len(op) > 2 else None
        try:
            if name == "call":
                return f(*a)
            if name == "index":
                return f.cache[a]
            if name == "unhashable":
                f([1, 2])
                return "returned"
            if name == "keyword":
                f(x=1)
                return "returned"
            if name == "has":
                return "yes" if a in f.cache else "no"
            if name == "poke":
                f.cache[a] = 900 + op[2]
                return "ok"
            if name == "evict":
                del f.cache[a]
                return "ok"
            if name == "clear":
                f.cache.clear()
                return "ok"
            raise AssertionError(name)
        except ValueError:
            return "ValueError"
        except TypeError:
            return "TypeError"
        except KeyError:
            return "KeyError"

    def project(self):
        cache = []
        for f in self.fns:
            row = []
            for a in self.args:
                v = dict.get(f.cache, a, 0) if isinstance(f.cache, dict) else (f.cache.get(a, 0))
                row.append(v if isinstance(v, int) and not isinstance(v, bool) else repr(v))
            cache.append(tuple(row))
        return {"cache": tuple(cache), "clock": tuple(s["n"] for s in self.st),
                "ncall": tuple(tuple(s["calls"][k] for k in sorted(s["calls"])) for s in self.st),
                "alien": sum(s["alien"] for s in self.st),
                "extra": sum(len(f.cache) for f in self.fns) - sum(1 for r in cache for v in r if v != 0)}


def graph(ctx, cached, cfg, what):
    """M1 on one configuration + M2: every transition of its graph replayed on the real decorator."""
    d = tlc.scratch_dir("x07")
    dot = os.path.join(d, "g.dot")
    r = tlc.require_ok(tlc.run("Cached", cfg, dump_dot=dot), "Cached",
                       need_actions=("Call", "Index", "Has", "Poke", "Evict", "Clear", "CallUnhashable",
                                     "CallKeyword"))
    ctx.add_tlc(r, what)
    nodes, inits, edges = tlaval.read_dot(dot)
    parent, order, out = graphcover.cover(inits, edges)
    ops_of = {}
    for n, st in nodes.items():
        ops_of[n] = tuple(st["last"])
    nf = len(nodes[inits[0]]["clock"])
    argsets = ARGSETS if ctx.thorough else [ARGSETS[ctx.seed % len(ARGSETS)], ARGSETS[(ctx.seed + 1) % len(ARGSETS)]]
    nbad = 0
    for ai, args in enumerate(argsets):
        # the thorough graph is replayed completely with the first argument set, every 7th edge with the others
        stride = 1 if (ai == 0 or not ctx.thorough) else 7
        for ei in range(ai % stride, len(edges), stride):
            src, dst, lab = edges[ei]
            path = graphcover.path_to(parent, src) + [ei]
            ops = [ops_of[edges[i][1]] for i in path]
            w = World(cached, nf, args)
            got = None
            for op in ops:
                got = w.apply(op)
            st = nodes[dst]
            want = {"cache": tuple(tuple(x) for x in st["cache"]), "clock": tuple(st["clock"]),
                    "ncall": tuple(tuple(x) for x in st["ncall"]), "alien": 0, "extra": 0}
            obs = w.project()
            ctx.count(1, nontrivial_key=("x07", ai, ei) if len(ops) >= 3 else None)
            if got != st["ret"] or obs != want:
                nbad += 1
                if nbad <= 20:
                    ctx.violation("X07:cached:%s" % ops[-1][0],
                                  {"operations": [list(o) for o in ops], "argument_tuples": repr(args),
                                   "returned": repr(got), "expected_return": st["ret"], "observed_state": repr(obs),
                                   "expected_state": repr(want)})
        ctx.traces += len(range(ai % stride, len(edges), stride))
    ctx.log("cached: %d states, %d transitions, replayed with %d argument sets, %d differ"
            % (len(nodes), len(edges), len(argsets), nbad))


def check(ctx):
    common.import_audiolazy()
    from audiolazy import cached
    ctx.rule = ("every transition of the Cached state graph replayed on the real decorator; non-trivial = "
                "histories of >= 3 operations")
    ctx.assumptions = ["one thread; argument tuples are hashable unless the operation says otherwise; the underlying "
                       "function's n-th invocation on key k returns 10*n+k (so that recomputation is observable)"]
    # two decorated functions (independence); one function with more invocations (a resident entry CAN be recomputed
    # by a wrong model or a wrong implementation only when the function may be entered again: with MaxCalls = 1 the
    # clause NoRecompute would be vacuous - found by harness/specmut.py x07_b)
    graph(ctx, cached, "Cached_thorough.cfg" if ctx.thorough else "Cached_quick.cfg",
          "Cached: memoisation decorator with its exposed dictionary, 2 functions, full reachable graph")
    graph(ctx, cached, "Cached_quick1.cfg",
          "Cached: 1 function, up to 3 invocations (recomputation possible), full reachable graph")
    m3(ctx, cached)
    ctx.exhaustive = True


ARGS4 = [((), (1, "x"), (None,), ((1, 2), 3)), ((7,), (7, 7), ("k",), (frozenset([1]), 2.5))]


def m3(ctx, cached):
    rng = ctx.rng
    ntr, length = (200, 60) if ctx.thorough else (40, 40)
    nf, nk, fail = 3, 4, {2, 4}
    traces = []
    for t in range(ntr):
        w = World(cached, nf, ARGS4[t % len(ARGS4)], fail=fail)
        evs = []
        for _ in range(length):
            st = w.project()
            f = rng.randint(1, nf)
            k = rng.randint(1, nk)
            op = rng.choice(["call"] * 5 + ["index", "has", "has", "poke", "evict", "evict", "clear", "unhashable",
                                            "keyword"])
            if op == "poke" and st["cache"][f - 1][k - 1] == 900 + k:
                op = "call"
            if op == "clear" and not any(st["cache"][f - 1]):
                op = "index"
            e = {"op": op, "f": f, "k": k}
            got = w.apply((op, f, k) if op not in ("clear", "unhashable", "keyword") else (op, f))
            obs = w.project()
            if obs["alien"] or obs["extra"]:
                got = "alien-entry"
            isint = isinstance(got, int) and not isinstance(got, bool)
            e.update(reti=got if isint else -1, rets="" if isint else str(got),
                     cache=[[v if isinstance(v, int) else -7 for v in row] for row in obs["cache"]],
                     clock=list(obs["clock"]), ncall=[list(r) for r in obs["ncall"]])
            evs.append(e)
        traces.append({"events": evs})
    consts = {"NF": str(nf), "NK": str(nk), "Fail": "{2, 4}", "MaxCalls": str(length + 1)}
    acc, rej = tracecheck.run_traces(ctx, "CachedTrace", consts, traces,
                                     invariants=("Accepted", "CallsAccounted", "EntriesAreResults",
                                                 "FailureNotCached"),
                                     what="X07 recorded histories")
    ctx.traces += len(acc)
    ctx.count(ntr * length)
    ctx.nontrivial_count += len(acc)
    ctx.log("M3: %d recorded histories of %d operations: %d accepted, %d rejected" % (ntr, length, len(acc), len(rej)))
    for tid, (l, clause) in sorted(rej.items()):
        ctx.violation("X07:trace:%s" % clause,
                      {"rejected_at_event": l, "failing_clause": clause,
                       "events_up_to_rejection": traces[tid - 1]["events"][max(0, l - 4):l]})
    if len(acc) + len(rej) != ntr:
        raise tlc.MachineryError("X07 trace validation: %d verdicts for %d traces" % (len(acc) + len(rej), ntr))
