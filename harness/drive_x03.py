"""X03 (extension) - stream-side pieces no listed property covers: TableLookup as a value, the lazy_itertools
wrappers, the Stream constructor / protocol rules, ControlStream with operators, the StreamTeeHub leak warning,
lazy_misc / lazy_compat helpers.

M1  TLC: spec/stream/MiscGrid.tla on the X03 grid (operational layer == definition layer, per-kind laws) and the
    full state graphs of spec/stream/MiscCtl.tla (ControlStream + derived expression) and MiscHub.tla (hub copies).
M2  spec -> code: every case TLC evaluated is run on the real objects through several call routes and compared
    with the value TLC exported; every transition of both state graphs is replayed (BFS path + the transition),
    comparing what every call returns.
M3  code -> spec: seeded random larger inputs / longer histories are recorded from the real code and judged by TLC
    (spec/trace/MiscTrace.tla, which uses the operators of the specification).
"""
import gc
import itertools
import math
import operator
import os
import types
import warnings
from fractions import Fraction

import common
import graphcover
import tlaval
import tlc
import tracecheck

F = Fraction
H_EXTRA = 20


# ------------------------------------------------------------------------------------------------ values
def fr(p):
    return Fraction(p[0], p[1])


def rat(x):
    f = Fraction(x)
    return [f.numerator, f.denominator]


def is_dyadic(r):
    d = r.denominator
    return d & (d - 1) == 0 and d <= (1 << 40)


def num_eq(v, r):
    """code number v against the exact rational r: exact for ints / Fractions and for floats whose exact value
    is dyadic (every float operation on the pools is then exact), README tolerance rule otherwise."""
    if isinstance(v, bool):
        v = int(v)
    if isinstance(v, complex):
        if v.imag != 0:
            return False
        v = v.real
    if isinstance(v, (int, Fraction)):
        return Fraction(v) == r
    if isinstance(v, float):
        if v != v or v in (float("inf"), float("-inf")):
            return False
        if is_dyadic(r):
            return Fraction(v) == r
        return abs(v - float(r)) <= 1e-9 * (1 + abs(float(r)))
    return False


def to_rat(v, maxden=4096):
    """code number -> exact [n, d] for the records TLC judges (None when it is not a small rational)."""
    if isinstance(v, bool):
        v = int(v)
    if isinstance(v, complex):
        if v.imag != 0:
            return None
        v = v.real
    if isinstance(v, (int, Fraction)):
        f = Fraction(v)
    elif isinstance(v, float):
        if v != v or v in (float("inf"), float("-inf")):
            return None
        f = Fraction(v)
        if not (is_dyadic(f) and f.denominator <= (1 << 20)):
            g = f.limit_denominator(maxden)
            if abs(float(g) - v) > 1e-9 * (1 + abs(v)):
                return None
            f = g
    else:
        return None
    if abs(f.numerator) >= (1 << 30) or f.denominator >= (1 << 30):
        return None
    return [f.numerator, f.denominator]


def elems(t, route):
    """spec table (tuple of rats) -> Python list for the route ('frac' | 'int' | 'num')."""
    fs = [fr(p) for p in t]
    if route == "frac":
        return fs
    if route == "int":
        return [int(f) for f in fs]
    return [int(f) if f.denominator == 1 else float(f) for f in fs]      # 'num': what normalize accepts


def all_int(t):
    return all(p[1] == 1 for p in t)


def scalar(v):
    f = fr(v)
    if f.denominator == 1:
        return int(f)
    return float(f) if is_dyadic(f) else None


def exc_name(ex):
    return type(ex).__name__


BIN_FUNCS = {"add": operator.add, "sub": operator.sub, "mul": operator.mul, "truediv": operator.truediv,
             "floordiv": operator.floordiv, "mod": operator.mod, "pow": operator.pow, "lshift": operator.lshift,
             "rshift": operator.rshift, "and": operator.and_, "or": operator.or_, "xor": operator.xor}
UN_FUNCS = {"pos": operator.pos, "neg": operator.neg, "invert": operator.invert}


# ------------------------------------------------------------------------------------------------ TableLookup
def table_obs(al, res, self_obj):
    """observation of a TableLookup result as (err, list, cycles)."""
    if not isinstance(res, al.TableLookup):
        return ("not-a-TableLookup:%s" % type(res).__name__, [], 0)
    if res is self_obj:
        return ("same-object", [], 0)
    if len(res) != len(res.table):
        return ("len-differs", [], 0)
    return ("none", list(res.table), res.cycles)


def other_obj(al, o, route):
    k = o["k"]
    if k == "tbl":
        return al.TableLookup(elems(o["t"], route), o["cy"])
    if k == "num":
        return scalar(o["v"])
    if k == "frac":
        return Fraction(1, 2)
    if k == "list":
        return [1, 2]
    raise tlc.MachineryError("unknown operand kind %r" % (k,))


def run_tbin(al, c, route, how):
    """how: 'dunder' (the method itself) | 'syntax' (the operator, Python dispatch included)."""
    self_obj = al.TableLookup(elems(c["self"]["t"], route), c["self"]["cy"])
    other = other_obj(al, c["other"], route)
    if other is None:
        return None
    nm, rev = c["op"], c["rev"]
    try:
        if how == "dunder":
            res = getattr(self_obj, "__%s%s__" % ("r" if rev else "", nm))(other)
        elif rev:
            res = BIN_FUNCS[nm](other, self_obj)
        else:
            res = BIN_FUNCS[nm](self_obj, other)
    except Exception as ex:
        return (exc_name(ex), [], 0)
    return table_obs(al, res, self_obj)


def tbl_same(obs, exp):
    """obs (err, list, cy) against the exported [e, t, cy]."""
    if obs[0] != exp["e"]:
        return False
    if exp["e"] != "none":
        return True
    if obs[2] != exp["cy"] or len(obs[1]) != len(exp["t"]):
        return False
    return all(num_eq(v, fr(p)) for v, p in zip(obs[1], exp["t"]))


def tbl_rec(obs):
    """observation -> record for TLC ([e, t, cy]); None if a value is not a small rational."""
    if obs[0] != "none":
        return {"e": obs[0], "t": [], "cy": 0}
    t = [to_rat(v) for v in obs[1]]
    if any(x is None for x in t) or not isinstance(obs[2], int):
        return None
    return {"e": "none", "t": t, "cy": obs[2]}


def show(obs):
    return [obs[0], [repr(x) for x in obs[1]], obs[2]]


# ------------------------------------------------------------------------------------------------ json-able cases
def jcase(x):
    """parsed TLA value -> JSON-able (tuples -> lists, frozensets -> sorted lists)."""
    if isinstance(x, dict):
        return {k: jcase(v) for k, v in x.items()}
    if isinstance(x, (tuple, list)):
        return [jcase(v) for v in x]
    if isinstance(x, frozenset):
        return sorted((jcase(v) for v in x), key=repr)
    return x


class Pending(object):
    """M2 disagreements with the operational layer that the statement may leave open: handed to TLC."""
    def __init__(self):
        self.recs = []
        self.meta = []

    def add(self, rec, meta):
        self.recs.append(rec)
        self.meta.append(meta)


# ------------------------------------------------------------------------------------------------ M2: grid
def iter_routes(seq, variant):
    """a finite iterable holding seq, in one of several disguises."""
    v = variant % 5
    if v == 0:
        return list(seq)
    if v == 1:
        return tuple(seq)
    if v == 2:
        return (x for x in seq)
    if v == 3:
        return iter(list(seq))
    return None          # Stream: built by the caller


def replay_case(ctx, al, li, lc, kind, c, out, idx, pend):
    """Run one grid case on the real code; returns list of (key, detail) disagreements."""
    bad = []
    T = al.TableLookup
    S = al.Stream

    def fail(sub, **detail):
        d = {"kind": kind, "case": jcase(c), "expected": jcase(out)}
        d.update(detail)
        bad.append(("X03:%s%s" % (kind, (":" + sub) if sub else ""), d))

    if kind == "optable":
        names = [op.name for op in al.OpMethod.get("all")]
        present = set(n for n in names if ("__%s__" % n) in vars(T))
        want = set(r["name"] for r in out) | {"eq", "ne"}
        ctx.count(1, nontrivial_key=("optable",))
        if present != want:
            fail("dunders", present=sorted(present), missing=sorted(want - present), extra=sorted(present - want))
        for r in out:
            ops = list(al.OpMethod.get(r["name"]))
            if len(ops) != 1 or ops[0].rev != r["rev"] or ops[0].arity != r["arity"] or ops[0].symbol != r["sym"]:
                fail("opmethod", row=jcase(r))
        t = T([1, 2])
        for sym, f in (("<", operator.lt), ("<=", operator.le), (">", operator.gt), (">=", operator.ge),
                       ("@", operator.matmul)):
            try:
                f(t, T([1, 2]))
                fail("unexpected-operator", symbol=sym)
            except TypeError:
                pass
        return bad

    if kind == "tbin":
        routes = ["frac"] + (["int"] if all_int(c["self"]["t"]) and
                             (c["other"]["k"] != "tbl" or all_int(c["other"]["t"])) else [])
        if c["op"] in ("lshift", "rshift", "and", "or", "xor"):
            routes = [r for r in routes if r == "int"]
        for route in routes:
            hows = ["dunder"] if (c["rev"] and c["other"]["k"] == "tbl") else ["dunder", "syntax"]
            if c["rev"] and c["other"]["k"] == "frac" and c["op"] == "pow":
                hows = ["dunder"]     # Fraction.__pow__ itself turns `Fraction ** object` into `float ** object`
            for how in hows:
                obs = run_tbin(al, c, route, how)
                if obs is None:
                    continue
                ctx.count(1, nontrivial_key=(kind, idx) if len(c["self"]["t"]) >= 2 else None)
                if not tbl_same(obs, out):
                    fail(c["other"]["k"] if out["e"] == "none" else "error", route=route, how=how, observed=show(obs))
        return bad

    if kind == "tun":
        routes = ["frac"] + (["int"] if all_int(c["self"]["t"]) else [])
        if c["op"] == "invert":
            routes = ["int"]
        for route in routes:
            self_obj = T(elems(c["self"]["t"], route), c["self"]["cy"])
            try:
                obs = table_obs(al, UN_FUNCS[c["op"]](self_obj), self_obj)
            except Exception as ex:
                obs = (exc_name(ex), [], 0)
            ctx.count(1, nontrivial_key=(kind, idx) if len(c["self"]["t"]) >= 2 else None)
            if not tbl_same(obs, out):
                fail("", route=route, observed=show(obs))
        return bad

    if kind == "tget":
        want = fr(out)
        i = fr(c["idx"])
        idxs = [i] + ([int(i)] if i.denominator == 1 else []) + ([float(i)] if is_dyadic(i) else [])
        for route in ["frac", "num"] + (["int"] if all_int(c["t"]) else []):
            t = T(elems(c["t"], route))
            for ix in idxs:
                try:
                    v = t[ix]
                except Exception as ex:
                    v = "EXC:" + exc_name(ex)
                ctx.count(1, nontrivial_key=(kind, idx) if i.denominator != 1 else None)
                if isinstance(v, str) or not num_eq(v, want):
                    fail("", route=route, index=repr(ix), observed=repr(v))
        return bad

    if kind == "tnorm":
        self_obj = T(elems(c["self"]["t"], "num"), c["self"]["cy"])
        try:
            obs = table_obs(al, self_obj.normalize(), self_obj)
        except Exception as ex:
            obs = (exc_name(ex), [], 0)
        ctx.count(1, nontrivial_key=(kind, idx) if len(c["self"]["t"]) >= 2 else None)
        if not tbl_same(obs, out):
            rec = tbl_rec(obs)
            if len(c["self"]["t"]) == 0:
                ctx.log("diagnostic: normalize() of an empty table: %r (model: ValueError from max())" % (obs[0],))
            elif rec is None:
                fail("", observed=show(obs))
            else:
                pend.add({"kind": "tnorm", "c": jcase(c), "out": rec},
                         ("X03:tnorm", {"kind": kind, "case": jcase(c), "expected": jcase(out), "observed": show(obs)}))
        return bad

    if kind == "tharm":
        divides = all(len(c["self"]["t"]) % (p + 1) == 0 for p, a in c["hd"])
        for route in ["frac"] + (["int"] if all_int(c["self"]["t"]) else []):
            self_obj = T(elems(c["self"]["t"], route), c["self"]["cy"])
            hd = {}
            for p, a in c["hd"]:
                hd[p] = int(fr(a)) if fr(a).denominator == 1 else fr(a)
            try:
                obs = table_obs(al, self_obj.harmonize(hd), self_obj)
            except Exception as ex:
                obs = (exc_name(ex), [], 0)
            ctx.count(1, nontrivial_key=(kind, idx) if len(c["hd"]) >= 2 else None)
            if not tbl_same(obs, out):
                if divides:
                    fail("", route=route, observed=show(obs))
                else:
                    ctx.log("diagnostic: harmonize with a partial that does not divide the length differs from the "
                            "operational layer: %s" % (show(obs),))
        return bad

    if kind == "teq":
        a = T(elems(c["self"]["t"], "frac"), c["self"]["cy"])
        b = other_obj(al, c["other"], "frac")
        ctx.count(1, nontrivial_key=(kind, idx))
        got = (a == b, a != b)
        if got != (out, not out):
            fail("", observed=list(got))
        return bad

    if kind == "tfacts":
        ls = al.lazy_synth
        n = ls.DEFAULT_TABLE_SIZE
        st, sw = ls.sin_table, ls.saw_table
        got = {"size": n, "sinlen": len(st), "sawlen": len(sw), "sincycles": st.cycles, "sawcycles": sw.cycles,
               "sin0": st.table[0], "sinq": st.table[n // 4], "sin3q": st.table[3 * n // 4],
               "saw0": sw.table[0], "sawlast": sw.table[-1]}
        ctx.count(len(got), nontrivial_key=("tfacts",))
        for k, v in got.items():
            w = out[k]
            ok = (v == w) if isinstance(w, int) else (Fraction(v) == fr(w))
            if not ok:
                fail(k, observed=repr(v))
        if len(st.table) != n or len(sw.table) != n:
            fail("tablelen")
        return bad

    if kind == "ctor":
        h = c["h"]
        for variant in range(3):
            args = []
            for j, a in enumerate(c["args"]):
                if a["it"]:
                    o = iter_routes(a["s"], variant + j + idx)
                    args.append(S(list(a["s"])) if o is None else o)
                else:
                    args.append(a["s"][0])
            try:
                s = S(*args)
                got = s.take(h + H_EXTRA)
                err = "none"
            except Exception as ex:
                got, err = [], exc_name(ex)
            ctx.count(1, nontrivial_key=(kind, idx) if len(c["args"]) >= 2 else None)
            ok = err == out["e"]
            if ok and err == "none":
                if out["endless"]:
                    p = len(c["args"])
                    ok = (len(got) == h + H_EXTRA and tuple(got[:h]) == tuple(out["out"]) and
                          all(got[i] == got[i - p] for i in range(p, len(got))))
                else:
                    ok = tuple(got) == tuple(out["out"])
            if not ok:
                fail("mixed" if out["e"] != "none" else ("endless" if out["endless"] else "chained"),
                     variant=variant, error=err, observed=got[:h + 2])
        return bad

    if kind in ("count", "repeat", "cycle", "islice", "chain", "zipl", "zips", "accum"):
        want = [tuple(x) if isinstance(x, tuple) else x for x in out]
        calls = []
        if kind == "count":
            calls = [("count", lambda m: m.count(c["start"], c["step"]), True)]
            if c["step"] == 1:
                calls.append(("count/1", lambda m: m.count(c["start"]), True))
        elif kind == "repeat":
            if c["times"] < 0:
                calls = [("repeat", lambda m: m.repeat(c["v"]), True)]
            else:
                calls = [("repeat", lambda m: m.repeat(c["v"], c["times"]), True)]      # compared on the first h items
        elif kind == "cycle":
            calls = [("cycle", lambda m: m.cycle(list(c["s"])), len(c["s"]) > 0),
                     ("cycle/gen", lambda m: m.cycle(x for x in c["s"]), len(c["s"]) > 0)]
        elif kind == "islice":
            stop = None if c["stop"] < 0 else c["stop"]
            calls = [("islice", lambda m: m.islice(list(c["s"]), c["start"], stop, c["step"]), False),
                     ("islice/gen", lambda m: m.islice(iter(c["s"]), c["start"], stop, c["step"]), False)]
            if c["step"] == 1:
                calls.append(("islice/2", lambda m: m.islice(list(c["s"]), c["start"], stop), False))
        elif kind == "chain":
            calls = [("chain", lambda m: m.chain(*[list(x) for x in c["ss"]]), False),
                     ("chain.star", lambda m: (m.chain.star if m is li else m.chain.from_iterable)
                      (list(x) for x in c["ss"]), False),
                     ("chain.from_iterable", lambda m: m.chain.from_iterable([tuple(x) for x in c["ss"]]), False)]
        elif kind == "zipl":
            calls = [("izip.longest", lambda m: (m.izip.longest if m is li else m.zip_longest)
                      (*[list(x) for x in c["ss"]], fillvalue=c["fill"]), False),
                     ("izip_longest", lambda m: (m.izip_longest if m is li else m.zip_longest)
                      (*[iter(x) for x in c["ss"]], fillvalue=c["fill"]), False)]
        elif kind == "zips":
            calls = [("izip", lambda m: (m.izip if m is li else zip)(*[list(x) for x in c["ss"]]), False),
                     ("izip.smallest", lambda m: (m.izip.smallest if m is li else zip)(*[iter(x) for x in c["ss"]]),
                      False)]
        elif kind == "accum":
            calls = [("accumulate", lambda m: m.accumulate(list(c["s"])), False),
                     ("accumulate.func", lambda m: (m.accumulate.func if m is li else m.accumulate)(iter(c["s"])),
                      False),
                     ("accumulate.itertools", lambda m: (m.accumulate.itertools if m is li else m.accumulate)
                      (list(c["s"])), False)]
        h = c.get("h", 0)
        for name, call, endless in calls:
            for mod, label in ((li, "audiolazy"), (itertools, "itertools")):
                try:
                    r = call(mod)
                    if mod is li and type(r) is not S:
                        fail("not-a-stream", call=name, type=type(r).__name__)
                        continue
                    got = list(itertools.islice(iter(r), h)) if endless else list(r)
                except Exception as ex:
                    got = "EXC:" + exc_name(ex)
                ctx.count(1, nontrivial_key=(kind, idx) if (label == "audiolazy" and len(want) >= 2) else None)
                if got != want:
                    if label == "itertools":
                        raise tlc.MachineryError("spec of %s disagrees with itertools itself on %r: %r / %r"
                                                 % (kind, jcase(c), got, want))
                    fail(name.split("/")[0], call=name, observed=got if isinstance(got, str) else got[:12])
        return bad

    if kind == "linames":
        real = sorted(n for n in dir(itertools) if not n.startswith("_") and callable(getattr(itertools, n)))
        if real != sorted(c["itnames"]):
            return None                                   # the case describes another interpreter
        have = set(li.__all__)
        public = set(n for n in have if not n.startswith("_"))
        ctx.count(len(out["names"]), nontrivial_key=("linames",))
        missing = set(out["names"]) - have
        if missing:
            fail("missing", missing=sorted(missing))
        extra = public - set(out["names"])
        if extra:
            ctx.log("diagnostic: lazy_itertools.__all__ also lists %s (and private %s): names picked up from "
                    "dir(itertools) that are not itertools functions"
                    % (sorted(extra), sorted(have - public)))
        for n in c["itnames"]:
            if n != {"filterfalse": "ifilterfalse", "zip_longest": "izip_longest"}.get(n, n) and n in have:
                fail("not-renamed", name=n)
        for n in sorted(set(out["names"]) & have):
            obj = getattr(li, n)
            knd = out["kinds"][n]
            ctx.count(1)
            try:
                if knd == "strategies":
                    keys = [tuple(k) for k in obj.keys()]
                    if keys != [tuple(k) for k in out["strat"][n]]:
                        fail("strategies", name=n, observed=[list(k) for k in keys])
                    dflt = out["dflt"][n]
                    if obj.default is not obj[dflt]:
                        fail("default", name=n)
                    for ks in out["strat"][n]:
                        for k in ks:
                            if obj[k] is not obj[ks[0]] or getattr(obj, k) is not obj[ks[0]]:
                                fail("alias", name=n, alias=k)
                            r = call_wrapper(li, k, obj[k])
                            if type(r) is not S:
                                fail("not-a-stream", name="%s.%s" % (n, k), type=type(r).__name__)
                elif knd == "tuple":
                    r = obj(iter([1, 2]), 3)
                    if not (isinstance(r, tuple) and len(r) == 3 and all(type(x) is S for x in r)):
                        fail("tee-kind", observed=repr(r))
                else:
                    r = call_wrapper(li, n, obj)
                    if type(r) is not S:
                        fail("not-a-stream", name=n, type=type(r).__name__)
                    if obj.__module__ != li.__name__:
                        fail("module-name", name=n, observed=obj.__module__)
            except Exception as ex:
                fail("call", name=n, error=exc_name(ex) + ": " + str(ex)[:80])
        return bad

    if kind == "tee":
        n, s = c["n"], list(c["s"])
        data = {"stream": lambda: S(list(s)), "iterator": lambda: iter(list(s)), "list": lambda: list(s),
                "number": lambda: 5}[c["kind"]]()
        try:
            r = li.tee(data, n) if n != 2 or idx % 2 else li.tee(data)
        except Exception as ex:
            fail("", error=exc_name(ex))
            return bad
        ctx.count(1, nontrivial_key=(kind, idx) if n >= 2 else None)
        if not isinstance(r, tuple) or len(r) != n:
            fail("shape", observed=repr(r))
        elif out["k"] == "same":
            if not all(x is data for x in r):
                fail("same", observed=repr(r))
        else:
            if not all(type(x) is S for x in r):
                fail("streams", observed=repr(r))
            else:
                order = list(range(n))
                if idx % 2:
                    order.reverse()
                got = {}
                for j in order:                      # independent: each copy yields everything, in any order of use
                    got[j] = r[j].take(1)
                for j in reversed(order):
                    got[j] += list(r[j])
                if any(tuple(got[j]) != tuple(out["out"][j]) for j in range(n)):
                    fail("independent", observed=[got[j] for j in range(n)])
        return bad

    if kind == "attr":
        name = c["name"]
        if name in ("real", "imag"):
            data = [complex(e[0], e[1]) for e in c["elems"]]
        else:
            data = [Fraction(e[0], e[1]) for e in c["elems"]]
        s = S(data)
        ctx.count(1, nontrivial_key=(kind, idx) if len(data) >= 2 else None)
        try:
            r = getattr(s, name)
            if type(r) is not S:
                fail("not-a-stream", type=type(r).__name__)
                return bad
            try:
                got, err = list(r), "none"
            except Exception as ex:
                got, err = [], exc_name(ex) + "-on-read"
        except Exception as ex:
            got, err = [], exc_name(ex)
        if err != out["e"] or (err == "none" and got != list(out["out"])):
            fail("refused" if out["e"] != "none" else "", error=err, observed=[repr(x) for x in got])
        return bad

    if kind == "meth":
        name = c["name"]
        if name == "conjugate":
            data = [complex(e[0], e[1]) for e in c["elems"]]
            proj = lambda z: (z.real, z.imag)
        else:
            data = [Fraction(e[0], e[1]) for e in c["elems"]]
            proj = lambda z: tuple(z)
        ctx.count(1, nontrivial_key=(kind, idx) if len(data) >= 2 else None)
        try:
            r = getattr(S(data), name)()
            got = [proj(z) for z in r] if type(r) is S else "not-a-stream"
        except Exception as ex:
            got = "EXC:" + exc_name(ex)
        if got != [tuple(x) for x in out["out"]]:
            fail("", observed=repr(got))
        return bad

    if kind == "call":
        fs = [(lambda cc, dd: (lambda x, y=0: cc * x + dd + y))(f["c"], f["d"]) for f in c["fs"]]
        ctx.count(1, nontrivial_key=(kind, idx) if len(fs) >= 2 else None)
        for route in ("kw", "pos"):
            try:
                r = S(fs)(c["x"], y=c["y"]) if route == "kw" else S(fs)(c["x"], c["y"])
                got = list(r) if type(r) is S else "not-a-stream"
            except Exception as ex:
                got = "EXC:" + exc_name(ex)
            if got != list(out["out"]):
                fail("", route=route, observed=repr(got))
        return bad

    if kind == "abs":
        ctx.count(1, nontrivial_key=(kind, idx) if len(c["s"]) >= 2 else None)
        try:
            r = abs(S(list(c["s"])))
            got = list(r) if isinstance(r, S) else "not-a-stream"
        except Exception as ex:
            got = "EXC:" + exc_name(ex)
        if got != list(out["out"]):
            fail("", observed=repr(got))
        return bad

    if kind == "proto":
        def outcome(f):
            try:
                r = f()
                return r if isinstance(r, str) else "returned:" + type(r).__name__
            except Exception as ex:
                return exc_name(ex)

        def iter_twice():
            s = S([1, 2, 3])
            return "same-object" if iter(s) is iter(s) else "different"

        def iter_feeds():
            s = S([1, 2, 3])
            first = next(iter(s))
            return "advances" if (first, s.take()) == (1, 2) else "does-not-advance"

        def abs_inplace():
            s = S([-1])
            return "same-object" if abs(s) is s else "new-object"
        got = {"bool": outcome(lambda: bool(S([1]))), "not": outcome(lambda: not S([1])),
               "next_builtin": outcome(lambda: next(S([1]))),
               "dunder_next": outcome(lambda: getattr(S([1]), "__next__")),
               "iter_twice": outcome(iter_twice), "iter_feeds": outcome(iter_feeds),
               "abs_inplace": outcome(abs_inplace),
               "zero_pad_type": "generator" if isinstance(al.zero_pad([1], 1, 1), types.GeneratorType) else "other",
               "orange_type": "list" if type(lc.orange(2)) is list else "other",
               "xrange_is": "range" if lc.xrange is range else "other",
               "iteritems_type": "iterator" if iter(lc.iteritems({1: 2})) is not None and
               not isinstance(lc.iteritems({1: 2}), (list, tuple, dict)) and
               hasattr(lc.iteritems({1: 2}), "__next__") else "other"}
        ctx.count(len(got), nontrivial_key=("proto",))
        for k, w in out.items():
            if got.get(k) != w:
                if k == "abs_inplace":
                    ctx.log("diagnostic: abs(stream) returned %s (the model has the in-place map)" % got.get(k))
                else:
                    fail(k, observed=repr(got.get(k)))
        return bad

    if kind == "zpad":
        s, le, ri, z = list(c["s"]), c["left"], c["right"], c["zero"]
        for route in ("pos", "kw", "gen"):
            try:
                if route == "pos":
                    g = al.zero_pad(s, le, ri, z)
                elif route == "kw":
                    g = al.zero_pad(s, left=le, right=ri, zero=z)
                else:
                    g = al.zero_pad((x for x in s), le, ri, zero=z)
                got = list(g)
            except Exception as ex:
                got = "EXC:" + exc_name(ex)
            ctx.count(1, nontrivial_key=(kind, idx) if (s and (le or ri)) else None)
            if got != list(out):
                fail("", route=route, observed=repr(got))
        return bad

    if kind == "blk":
        s, size, pad = list(c["s"]), c["size"], c["pad"]
        want = [list(b) for b in out]
        for route in ("omitted", "none", "method"):
            try:
                if route == "omitted":
                    g = al.blocks(s, size, padval=pad)
                elif route == "none":
                    g = al.blocks(iter(s), size, None, pad)
                else:
                    g = S(s).blocks(size, padval=pad)
                got = [list(b) for b in g]
            except Exception as ex:
                got = "EXC:" + exc_name(ex)
            ctx.count(1, nontrivial_key=(kind, idx) if len(want) >= 2 else None)
            if got != want:
                fail("", route=route, observed=repr(got))
        return bad

    if kind == "shz":
        r = fr(c["rate"])
        rates = ([int(r)] if r.denominator == 1 else []) + ([float(r)] if is_dyadic(r) else []) + [r]
        for rate in rates:
            try:
                sec, hz = al.sHz(rate)
            except Exception as ex:
                fail("", rate=repr(rate), error=exc_name(ex))
                continue
            ctx.count(1, nontrivial_key=(kind, idx))
            want_hz = float(fr(out["hz"]["r"])) * math.pi
            if not (type(sec) is float and sec == float(fr(out["s"]))):        # float(rate): the nearest float
                fail("seconds", rate=repr(rate), observed=repr(sec))
            if not abs(float(hz) - want_hz) <= 1e-9 * (1 + abs(want_hz)):
                fail("hertz", rate=repr(rate), observed=repr(hz))
        return bad

    if kind == "f2l":
        v = float(fr(c["v"]["r"])) * (math.pi if c["v"]["u"] == "pi" else 1)
        names = ["freq2lag", "lag2freq", "freq_to_lag", "lag_to_freq"]
        for nm in names:
            f = getattr(al, nm)
            with warnings.catch_warnings(record=True) as w:
                warnings.simplefilter("always")
                try:
                    got, err = f(v), "none"
                except Exception as ex:
                    got, err = None, exc_name(ex)
            ctx.count(1, nontrivial_key=(kind, idx, nm))
            if "_to_" in nm and not any(issubclass(x.category, DeprecationWarning) for x in w):
                fail("deprecation", name=nm)
            if err != out["e"]:
                fail("error", name=nm, error=err)
            elif err == "none":
                want = float(fr(out["q"]["r"])) * (math.pi if out["q"]["u"] == "pi" else 1)
                if not abs(got - want) <= 1e-9 * (1 + abs(want)):
                    fail("", name=nm, observed=repr(got), expected_float=want)
        return bad

    if kind == "orange":
        args = list(c["args"])
        for f, label in ((lc.orange, "orange"), (lambda *a: list(lc.xrange(*a)), "xrange")):
            try:
                got, err = f(*args), "none"
            except Exception as ex:
                got, err = [], exc_name(ex)
            ctx.count(1, nontrivial_key=(kind, idx) if len(args) == 3 else None)
            if err != out["e"] or (err == "none" and (type(got) is not list or got != list(out["out"]))):
                fail("", call=label, error=err, observed=got[:10])
        return bad

    if kind == "items":
        d = {}
        for k, v in c["pairs"]:
            d[k] = v
        ctx.count(2, nontrivial_key=(kind, idx) if len(d) >= 2 else None)
        if list(lc.iteritems(d)) != [tuple(p) for p in out["items"]]:
            fail("iteritems", observed=repr(list(lc.iteritems(d))))
        if list(lc.itervalues(d)) != list(out["values"]):
            fail("itervalues", observed=repr(list(lc.itervalues(d))))
        return bad

    raise tlc.MachineryError("no replayer for kind %r" % kind)


WRAPPER_ARGS = {
    "accumulate": lambda: ([1, 2, 3],), "batched": lambda: ([1, 2, 3], 2), "chain": lambda: ([1], [2]),
    "combinations": lambda: ([1, 2, 3], 2), "combinations_with_replacement": lambda: ([1, 2], 2),
    "compress": lambda: ([1, 2, 3], [1, 0, 1]), "count": lambda: (), "cycle": lambda: ([1, 2],),
    "dropwhile": lambda: (lambda x: x < 2, [1, 2, 3]), "ifilterfalse": lambda: (lambda x: x < 2, [1, 2, 3]),
    "groupby": lambda: ([1, 1, 2],), "islice": lambda: ([1, 2, 3], 2), "pairwise": lambda: ([1, 2, 3],),
    "permutations": lambda: ([1, 2],), "product": lambda: ([1, 2], [3]), "repeat": lambda: (1,),
    "starmap": lambda: (operator.add, [(1, 2)]), "takewhile": lambda: (lambda x: x < 2, [1, 2, 3]),
    "izip_longest": lambda: ([1], [2, 3]), "izip": lambda: ([1], [2, 3]), "imap": lambda: (abs, [1, -2]),
    "ifilter": lambda: (lambda x: x < 2, [1, 2, 3]), "star": lambda: ([[1], [2]],),
    "from_iterable": lambda: ([[1], [2]],), "smallest": lambda: ([1], [2, 3]), "longest": lambda: ([1], [2, 3]),
    "itertools": lambda: ([1, 2, 3],), "func": lambda: ([1, 2, 3],), "pure_python": lambda: ([1, 2, 3],),
    "z": lambda: ([1, 2, 3],),
}


def call_wrapper(li, name, f):
    key = name if name in WRAPPER_ARGS else getattr(f, "__name__", name)
    if key not in WRAPPER_ARGS:
        raise tlc.MachineryError("no sample arguments for lazy_itertools.%s" % name)
    return f(*WRAPPER_ARGS[key]())


def m2_grid(ctx, al, module, cfg):
    li, lc = al.lazy_itertools, al.lazy_compat
    d = tlc.scratch_dir("x03")
    dump = os.path.join(d, "states")
    r = tlc.require_ok(tlc.run(module, cfg, dump=dump), module, need_actions=("Evaluate",))
    ctx.add_tlc(r, "MiscGrid: operational layer == definition layer + per-kind laws on the X03 grid")
    pend = Pending()
    nstates = ncases = 0
    kinds = {}
    names_matched = 0
    for st in tlaval.read_dump(dump + ".dump"):
        nstates += 1
        if st["phase"] != "done":
            continue
        ncases += 1
        kind = st["kind"]
        kinds[kind] = kinds.get(kind, 0) + 1
        bad = replay_case(ctx, al, li, lc, kind, st["case"], st["out"], ncases, pend)
        if kind == "linames":
            if bad is None:
                continue
            names_matched += 1
        if ncases % 701 == 0 or (kind in ("tharm", "ctor") and kinds[kind] == 5):
            ctx.sample({"kind": kind, "case": jcase(st["case"]), "spec_value": jcase(st["out"])})
        for key, detail in bad:
            ctx.violation(key, detail)
    if nstates != r.distinct:
        raise tlc.MachineryError("dump has %d states, TLC reported %d" % (nstates, r.distinct))
    if not names_matched:
        raise tlc.MachineryError("no 'linames' case describes this interpreter's itertools")
    if pend.recs:
        rej = tracecheck.run_records(ctx, "MiscTrace", {}, pend.recs, extra_data={"traces": []},
                                     what="X03 M2 disagreements with the operational layer judged on the contract")
        for i, (key, detail) in enumerate(pend.meta, 1):
            if i in rej:
                ctx.violation(key, dict(detail, clause=rej[i][0]))
            else:
                ctx.log("diagnostic: %s differs from the operational layer but meets the documented contract: %s"
                        % (key, detail["observed"]))
    ctx.traces += ncases
    ctx.log("M2 grid: %d cases replayed (%s)" % (ncases, ", ".join("%s %d" % kv for kv in sorted(kinds.items()))))


# ------------------------------------------------------------------------------------------------ M2: machines
class CsRig(object):
    """A real ControlStream with one expression derived from it."""
    def __init__(self, al, expr, v0, d, per, variant=0):
        S = al.Stream
        self.cs = cs = al.ControlStream(v0)
        if per:
            data = S(*d) if len(d) > 1 else S(d[0])
        elif variant % 2:
            data = list(d)               # a plain list operand: Python dispatches to the reflected dunder
        else:
            data = S(list(d))
        self.res = {"self": lambda: cs, "neg": lambda: -cs, "rsub": lambda: 10 - cs, "add": lambda: data + cs,
                    "csleft": lambda: cs - data, "mul2add": lambda: cs * 2 + data, "gt": lambda: cs > data}[expr]()
        self.variant = variant

    def apply(self, op, arg):
        if op == "set":
            self.cs.value = arg
            return []
        if op == "take":
            if self.variant % 3 == 2:
                return list(itertools.islice(iter(self.res), arg))
            return self.res.take(arg)
        if op == "takecs":
            return self.cs.take(arg)
        if op == "read":
            return [self.cs.value]
        raise tlc.MachineryError("unknown ControlStream action %r" % op)


CS_ACTIONS = {"SetValue": "set", "Take": "take", "TakeCs": "takecs", "ReadValue": "read"}


class HubRig(object):
    """A real StreamTeeHub held by exactly one reference (self.box)."""
    DATA = [1, 2]

    def __init__(self, al, n):
        self.al = al
        self.box = [al.thub(list(self.DATA), n)]

    def _warned(self, w):
        out = None
        for x in w:
            if issubclass(x.category, self.al.MemoryLeakWarning):
                words = str(x.message).split()
                k = [int(t) for t in words if t.isdigit()]
                if out is not None or len(k) != 1 or "more copies than needed" not in str(x.message):
                    return ["bad-warning", str(x.message)]
                out = ["warn", k[0]]
        return out or ["nowarn"]

    def apply(self, op, variant=0):
        S = self.al.Stream
        try:
            if op == "use":
                v = variant % 6
                h = self.box[0]
                if v == 0:
                    got = list(h)
                elif v == 1:
                    got = S(h).take(5)
                elif v == 2:
                    got = [x - 1 for x in (h + 1)]
                elif v == 3:
                    got = list(h.map(lambda x: x))
                elif v == 4:
                    got = list(iter(h))
                else:
                    got = list(h.limit(5))
                del h
                return ["ok"] if got == self.DATA else ["wrong-items", got]
            if op == "peek":
                got = self.box[0].peek(1) if variant % 2 else [self.box[0].peek()]
                return ["ok"] if got == self.DATA[:1] else ["wrong-items", got]
            if op == "copy":
                c = self.box[0].copy()
                return ["ok"] if list(c) == self.DATA else ["wrong-items"]
            if op == "take":
                self.box[0].take() if variant % 2 else self.box[0].take(2)
                return ["ok"]
            if op in ("calldel", "drop"):
                with warnings.catch_warnings(record=True) as w:
                    warnings.simplefilter("always")
                    if op == "calldel":
                        self.box[0].__del__()
                    else:
                        self.box.pop()
                        gc.collect()
                return self._warned(w)
        except tlc.MachineryError:
            raise
        except Exception as ex:
            return [exc_name(ex)]
        raise tlc.MachineryError("unknown hub action %r" % op)


HUB_ACTIONS = {"Use": "use", "Peek": "peek", "Copy": "copy", "TakeRefused": "take", "CallDel": "calldel",
               "Drop": "drop"}


def replay_graph(ctx, al, module, cfg, which):
    d = tlc.scratch_dir("x03g")
    dot = os.path.join(d, "g.dot")
    need = tuple(CS_ACTIONS) if which == "cs" else tuple(HUB_ACTIONS)
    r = tlc.require_ok(tlc.run(module, cfg, dump_dot=dot), module, need_actions=need)
    ctx.add_tlc(r, "%s full reachable graph" % module)
    nodes, inits, edges = tlaval.read_dot(dot)
    if len(nodes) != r.distinct:
        raise tlc.MachineryError("dot dump has %d nodes, TLC reported %d" % (len(nodes), r.distinct))
    parent, order, out = graphcover.cover(inits, edges)
    if len(parent) != len(nodes):
        raise tlc.MachineryError("state graph not connected from Init")
    labels = [tlaval.parse_label(e[2]) for e in edges]

    def root_of(node):
        while parent[node] is not None:
            node = parent[node][0]
        return node
    for ei, (src, dst, lab) in enumerate(edges):
        path = graphcover.path_to(parent, src) + [ei]
        st0 = nodes[root_of(src)]
        with warnings.catch_warnings(record=True):
            warnings.simplefilter("always")
            if which == "cs":
                c0 = st0["cs"]
                rig = CsRig(al, c0["expr"], c0["val"], list(c0["d"]), c0["per"], variant=ei)
            else:
                rig = HubRig(al, st0["hub"]["n"])
            hist, failed = [], None
            for step, pi in enumerate(path):
                name, args = labels[pi]
                want = list(nodes[edges[pi][1]]["res"])
                if which == "cs":
                    try:
                        got = rig.apply(CS_ACTIONS[name], args[0] if args else None)
                        got = [int(x) if isinstance(x, bool) else x for x in got]
                    except Exception as ex:
                        got = ["EXC:" + exc_name(ex)]
                else:
                    got = rig.apply(HUB_ACTIONS[name], variant=ei + step)
                hist.append([edges[pi][2], got])
                if got != want and failed is None:
                    failed = (name, want, got)
            if which == "hub" and rig.box:
                try:
                    rig.box[0]._iters[:] = []    # silence the hub of an unfinished path (not an observation)
                except AttributeError:
                    pass
        ctx.count(1, nontrivial_key=(module, ei) if len(path) >= 2 else None)
        if ei % 1999 == 7:
            ctx.sample({"module": module, "history": hist})
        if failed:
            ctx.violation("X03:%s:%s" % ("ControlStream" if which == "cs" else "StreamTeeHub", failed[0]),
                          {"module": module, "history": hist, "expected": failed[1], "observed": failed[2],
                           "initial": jcase(st0)})
    ctx.traces += len(edges)
    ctx.log("%s: %d states, %d transitions replayed" % (module, len(nodes), len(edges)))


# ------------------------------------------------------------------------------------------------ M3
def rnd_rat(rng, ints=False):
    n = rng.randint(-9, 9)
    d = 1 if ints or rng.random() < 0.5 else rng.choice([2, 3, 4])
    return Fraction(n, d)


def rnd_table(rng, n, ints=False):
    return [rnd_rat(rng, ints) for _ in range(n)]


def jt(t, cy):
    return {"t": [rat(x) for x in t], "cy": cy}


def m3_records(ctx, al, count):
    rng = ctx.rng
    li, lc = al.lazy_itertools, al.lazy_compat
    T, S = al.TableLookup, al.Stream
    recs, meta = [], []

    flat = ("islice", "chain", "count", "cycle", "repeat", "accum", "zpad")
    nested = ("zipl", "zips", "blk")

    def is_ints(x):
        return type(x) is list and all(type(v) in (int, bool) for v in x)

    def add(kind, c, out, key=None, **extra):
        if callable(out):
            try:
                out = out()
            except Exception as ex:
                ctx.violation("X03:%s:exception" % kind, {"kind": kind, "case": c,
                                                          "error": exc_name(ex) + ": " + str(ex)[:120]})
                return
        shape_ok = True
        if kind in flat:
            shape_ok = is_ints(out)
        elif kind in nested:
            shape_ok = type(out) is list and all(is_ints(b) for b in out)
        elif kind in ("ctor", "orange"):
            shape_ok = is_ints(out["out"])
        if not shape_ok:
            ctx.violation("X03:%s:type" % kind, {"kind": kind, "case": c, "observed": repr(out)[:300]})
            return
        rec = {"kind": kind, "c": c, "out": out}
        rec.update(extra)
        recs.append(rec)
        meta.append((key or ("X03:%s" % kind), {"kind": kind, "case": c, "observed": out}))

    arith = ["add", "sub", "mul", "truediv", "floordiv", "mod", "pow"]
    bits = ["lshift", "rshift", "and", "or", "xor"]
    for _ in range(count):
        # ---- TableLookup operators
        n = rng.randint(0, 12)
        nm = rng.choice(arith + bits)
        ints = nm in bits or rng.random() < 0.2
        a = rnd_table(rng, n, ints)
        cy = rng.randint(1, 3)
        rev = rng.random() < 0.35
        ok_kind = rng.random()
        if ok_kind < 0.5 and not rev:
            m = n if rng.random() < 0.85 else rng.randint(0, 12)
            b = rnd_table(rng, m, ints)
            if nm == "pow":
                b = [Fraction(rng.randint(-3, 3)) for _ in range(m)]
            if nm in ("lshift", "rshift"):
                b = [Fraction(rng.randint(-1, 10)) for _ in range(m)]
            ocy = cy if rng.random() < 0.85 else rng.randint(1, 3)
            other, oj = T(list(map(int, b)) if ints else b, ocy), dict(jt(b, ocy), k="tbl")
        elif ok_kind < 0.93:
            v = rng.randint(-6, 9)
            if nm == "pow":
                v = rng.randint(-3, 3)
            if nm == "pow" and rev:
                a = [Fraction(rng.randint(-3, 3)) for _ in range(n)]
                v = rng.choice([-3, -2, -1, 1, 2, 3, 0])
            if nm in ("lshift", "rshift") and rev:
                a = [Fraction(rng.randint(-1, 10)) for _ in range(n)]
            other, oj = v, {"k": "num", "v": rat(v)}
        else:
            other, oj = rng.choice([(Fraction(1, 2), {"k": "frac"}), ([1, 2], {"k": "list"})])
        self_obj = T(list(map(int, a)) if ints else list(a), cy)
        try:
            if rev:
                syntax = rng.random() < 0.5 and not (nm == "pow" and oj["k"] == "frac")   # Fraction.__pow__ coerces
                res = BIN_FUNCS[nm](other, self_obj) if syntax else getattr(self_obj, "__r%s__" % nm)(other)
            else:
                res = BIN_FUNCS[nm](self_obj, other) if rng.random() < 0.5 else getattr(self_obj, "__%s__" % nm)(other)
            obs = table_obs(al, res, self_obj)
        except Exception as ex:
            obs = (exc_name(ex), [], 0)
        c = {"op": nm, "rev": rev, "self": jt(a, cy), "other": oj}
        rec = tbl_rec(obs)
        if rec is None:
            ctx.violation("X03:tbin:inexact", {"case": c, "observed": show(obs)})
        else:
            add("tbin", c, rec)
        # ---- __getitem__
        n = rng.randint(1, 16)
        t = [Fraction(rng.randint(-16, 16)) for _ in range(n)]
        ix = Fraction(rng.randint(0, 8 * 3 * n), 8)
        use = rng.choice([ix, float(ix)] + ([int(ix)] if ix.denominator == 1 else []))
        tb = T([int(x) for x in t] if rng.random() < 0.5 else [float(x) for x in t])
        try:
            v = to_rat(tb[use])
        except Exception as ex:
            v = None
        if v is None:
            ctx.violation("X03:tget", {"table": [int(x) for x in t], "index": repr(use)})
        else:
            add("tget", {"t": [rat(x) for x in t], "idx": rat(ix)}, v)
        # ---- normalize
        n = rng.randint(1, 14)
        t = [Fraction(rng.randint(-64, 64)) for _ in range(n)]
        if rng.random() < 0.1:
            t = [Fraction(0)] * n
        cy = rng.randint(1, 4)
        self_obj = T([int(x) for x in t], cy)
        try:
            obs = table_obs(al, self_obj.normalize(), self_obj)
        except Exception as ex:
            obs = (exc_name(ex), [], 0)
        rec = None if obs[0] == "none" and any(to_rat(x, 64) is None for x in obs[1]) else \
            ({"e": obs[0], "t": [to_rat(x, 64) for x in obs[1]], "cy": obs[2]})
        if rec is None:
            ctx.violation("X03:tnorm", {"table": [int(x) for x in t], "observed": show(obs)})
        else:
            add("tnorm", {"self": jt(t, cy)}, rec)
        # ---- harmonize (partials that divide the length: the documented reading)
        n = rng.choice([4, 6, 8, 12])
        t = rnd_table(rng, n)
        divs = [p for p in range(0, n) if n % (p + 1) == 0]
        if rng.random() < 0.2:
            divs = list(range(0, 5))
        parts = rng.sample(divs, rng.randint(1, min(3, len(divs))))
        hd = [(p, Fraction(rng.randint(-4, 5), rng.choice([1, 1, 2]))) for p in parts]
        cy = rng.randint(1, 3)
        self_obj = T(list(t), cy)
        try:
            obs = table_obs(al, self_obj.harmonize(dict((p, (int(a) if a.denominator == 1 else a)) for p, a in hd)),
                            self_obj)
        except Exception as ex:
            obs = (exc_name(ex), [], 0)
        rec = tbl_rec(obs)
        if rec is None:
            ctx.violation("X03:tharm", {"table": [str(x) for x in t], "observed": show(obs)})
        else:
            add("tharm", {"self": jt(t, cy), "hd": [[p, rat(a)] for p, a in hd]}, rec)
        # ---- Stream constructor
        k = rng.randint(0, 6)
        mode = rng.random()
        args, jargs = [], []
        for j in range(k):
            it_ = (mode < 0.45) or (mode < 0.6 and rng.random() < 0.5)
            if it_:
                s = [rng.randint(-9, 9) for _ in range(rng.randint(0, 5))]
                o = iter_routes(s, rng.randint(0, 4))
                args.append(S(list(s)) if o is None else o)
                jargs.append({"it": True, "s": s})
            else:
                v = rng.randint(-9, 9)
                args.append(v)
                jargs.append({"it": False, "s": [v]})
        h = 40
        try:
            got = S(*args).take(h + 1)
            out = {"e": "none", "out": got[:h], "endless": len(got) > h}
        except Exception as ex:
            out = {"e": exc_name(ex), "out": [], "endless": False}
        add("ctor", {"args": jargs, "h": h}, out)
        # ---- itertools wrappers
        s = [rng.randint(-20, 20) for _ in range(rng.randint(0, 30))]
        start, step = rng.randint(0, 8), rng.randint(1, 6)
        stop = rng.choice([-1, rng.randint(0, 35)])
        try:
            got = list(li.islice(iter(s), start, None if stop < 0 else stop, step))
        except Exception as ex:
            got = [exc_name(ex)]
        add("islice", {"s": s, "start": start, "stop": stop, "step": step}, got)
        ss = [[rng.randint(0, 9) for _ in range(rng.randint(0, 6))] for _ in range(rng.randint(1, 5))]
        star = rng.random() < 0.5
        add("chain", {"ss": ss}, lambda: list(li.chain.star(iter(ss)) if star else li.chain(*ss)))
        add("zipl", {"ss": ss, "fill": -1}, lambda: [list(x) for x in li.izip.longest(*ss, fillvalue=-1)])
        add("zips", {"ss": ss}, lambda: [list(x) for x in li.izip(*ss)])
        st_, sp_ = rng.randint(-50, 50), rng.randint(-9, 9)
        add("count", {"start": st_, "step": sp_, "h": 25}, lambda: li.count(st_, sp_).take(25))
        add("cycle", {"s": s[:7], "h": 30}, lambda: li.cycle(s[:7]).take(30))
        tm = rng.choice([-1, rng.randint(0, 40)])
        add("repeat", {"v": 3, "times": tm, "h": 30}, lambda: (li.repeat(3) if tm < 0 else li.repeat(3, tm)).take(30))
        which = rng.randrange(2)
        add("accum", {"s": s}, lambda: list((li.accumulate, li.accumulate.func)[which](s)))
        # ---- lazy_misc / lazy_compat
        le, ri_ = rng.randint(0, 9), rng.randint(0, 9)
        add("zpad", {"s": s, "left": le, "right": ri_, "zero": 77}, lambda: list(al.zero_pad(iter(s), le, ri_, 77)))
        size = rng.randint(1, 9)
        fn = rng.random() < 0.5
        add("blk", {"s": s, "size": size, "pad": -99},
            lambda: [list(b) for b in (al.blocks(s, size, padval=-99) if fn else S(s).blocks(size, None, -99))])
        ra = [rng.randint(-12, 12) for _ in range(rng.randint(0, 3))]
        try:
            got = lc.orange(*ra)
            out = {"e": "none", "out": got if type(got) is list else repr(got), "endless": False}
        except Exception as ex:
            out = {"e": exc_name(ex), "out": [], "endless": False}
        add("orange", {"args": ra}, out)
        # ---- units (relations on fixed-point samples)
        rate = rng.choice([rng.randint(1, 96000), rng.randint(1, 50)])
        v = rng.choice([-1, 1]) * rng.uniform(1e-3, 50.0)
        try:
            sec, hz = al.sHz(rate)
            recs.append({"kind": "shz", "c": {"rate": rat(rate)}, "s": rat(sec),
                         "turnsfx": int(round(hz * sec / (2 * math.pi) * (1 << 20)))})
            meta.append(("X03:shz", {"rate": rate, "observed": [sec, hz]}))
            lag = al.freq2lag(v)
            back = al.lag2freq(lag)
            recs.append({"kind": "f2l", "c": {"x": 0}, "prodfx": int(round(lag * v / (2 * math.pi) * (1 << 20))),
                         "backfx": int(round(back / v * (1 << 20)))})
            meta.append(("X03:f2l", {"v": v, "observed": [lag, back]}))
        except Exception as ex:
            ctx.violation("X03:units:exception", {"rate": rate, "v": v, "error": exc_name(ex)})
    # ---- names, default tables (once)
    real = sorted(n for n in dir(itertools) if not n.startswith("_") and callable(getattr(itertools, n)))
    add("linames", {"itnames": real}, lambda: sorted(li.__all__))
    sw = al.lazy_synth.saw_table.table
    n = len(sw)
    pos = sorted(set(rng.randrange(n // 2) for _ in range(200)) | {0, n // 2 - 1})
    recs.append({"kind": "sawsym", "c": {"x": 0}, "lo": [int(round(sw[i] * (1 << 20))) for i in pos],
                 "hi": [int(round(sw[n - 1 - i] * (1 << 20))) for i in pos]})
    meta.append(("X03:saw_table", {"positions": pos[:8]}))
    st = al.lazy_synth.sin_table.table
    n = len(st)
    pos = sorted(set(rng.randrange(1, n // 2) for _ in range(200)) | {1, n // 4, n // 2 - 1})
    fx = lambda v: int(round(v * (1 << 20)))
    recs.append({"kind": "sinsym", "c": {"x": 0}, "a": [fx(st[i]) for i in pos], "b": [fx(st[n - i]) for i in pos],
                 "h": [fx(st[n // 2 - i]) for i in pos]})
    meta.append(("X03:sin_table", {"positions": pos[:8]}))
    bad = tracecheck.run_records(ctx, "MiscTrace", {}, recs, extra_data={"traces": []},
                                 what="X03 recorded calls judged by the specification", chunk=600)
    nund = 0
    for i, info in sorted(bad.items()):
        key, detail = meta[i - 1]
        if info[0] in ("layers", "law"):
            raise tlc.MachineryError("specification layers disagree on a recorded input: %r" % (detail,))
        if info[0] == "value-undocumented":
            nund += 1
            ctx.log("diagnostic: harmonize outside the documented reading differs from the operational layer: %r"
                    % (detail,))
            continue
        ctx.violation(key, dict(detail, clause=info[0]))
    ctx.traces += len(recs) - len(bad) + nund
    ctx.count(len(recs))
    ctx.nontrivial_count += len(recs)
    ctx.sample({"recorded": recs[0]})
    ctx.log("M3 records: %d judged by TLC, %d rejected" % (len(recs), len(bad) - nund))


def m3_traces(ctx, al, ncs, nhub, length):
    rng = ctx.rng
    traces, info = [], []
    for i in range(ncs):
        expr = rng.choice(sorted(["self", "neg", "rsub", "add", "csleft", "mul2add", "gt"]))
        d = [rng.randint(-30, 30) for _ in range(rng.randint(1, 9))]
        per = rng.random() < 0.6
        v0 = rng.randint(-100, 100)
        rig = CsRig(al, expr, v0, d, per, variant=i)
        events = []
        for _ in range(length):
            x = rng.random()
            if x < 0.35:
                op, arg = "set", rng.randint(-100, 100)
            elif x < 0.8:
                op, arg = "take", rng.randint(0, 5)
            elif x < 0.9 and expr != "self":
                op, arg = "takecs", rng.randint(0, 3)
            else:
                op, arg = "read", 0
            try:
                res = [int(v) if isinstance(v, bool) else v for v in rig.apply(op, arg)]
            except Exception as ex:
                res = [exc_name(ex)]
            events.append({"op": op, "arg": arg, "res": res})
        traces.append({"kind": "cs", "expr": expr, "v0": v0, "d": d, "per": per, "n": 0, "events": events})
    for i in range(nhub):
        n = rng.randint(0, 7)
        rig = HubRig(al, n)
        events = []
        alive = True
        for step in range(rng.randint(2, 14)):
            op = rng.choice(["use", "use", "use", "peek", "copy", "take", "calldel"])
            events.append({"op": op, "arg": 0, "res": rig.apply(op, variant=rng.randint(0, 11))})
        events.append({"op": "drop", "arg": 0, "res": rig.apply("drop")})
        traces.append({"kind": "hub", "expr": "", "v0": 0, "d": [], "per": False, "n": n, "events": events})
    acc, rej = tracecheck.run_traces(ctx, "MiscTrace", {}, traces, invariants=("Accepted", "HubCounts"),
                                     what="X03 recorded ControlStream / StreamTeeHub histories",
                                     extra_data={"recs": []})
    ctx.traces += len(acc)
    ctx.count(sum(len(t["events"]) for t in traces))
    ctx.nontrivial_count += len(acc)
    ctx.sample({"recorded_history": dict(traces[0], events=traces[0]["events"][:4])})
    ctx.log("M3 traces: %d histories: %d accepted, %d rejected" % (len(traces), len(acc), len(rej)))
    for tid, (l, clause) in sorted(rej.items()):
        tr = traces[tid - 1]
        ctx.violation("X03:trace:%s:%s" % ("ControlStream" if tr["kind"] == "cs" else "StreamTeeHub", clause),
                      {"kind": tr["kind"], "expr": tr["expr"], "v0": tr["v0"], "data": tr["d"], "periodic": tr["per"],
                       "copies": tr["n"], "rejected_at_event": l, "events_up_to_rejection": tr["events"][max(0, l - 4):l]})


def check(ctx):
    al = common.import_audiolazy()
    ctx.rule = ("M2: every case of the TLC grid through its call routes (non-trivial = >= 2 table items / operands / "
                "blocks; index with a fractional part) + one replay per transition of both state graphs (non-trivial "
                "= path of >= 2 calls); M3: recorded calls and histories judged by TLC")
    ctx.assumptions = [
        "TableLookup: bit operators on integer tables, ** with integer exponents, numbers = int / float operands "
        "(Fraction and list operands are refused by the templates: modelled, NotImplementedError)",
        "TableLookup.__getitem__: index >= 0, table not empty; normalize(): table not empty",
        "harmonize: non-empty dictionary, partials >= 0; the sampled-harmonic reading is demanded only when "
        "partial+1 divides the table length (otherwise the operational layer is diagnostics)",
        "float results are compared exactly when the exact value is dyadic, with 1e-9*(1+|x|) otherwise "
        "(int/int true division, float operands, 2*pi/v)",
        "lazy_itertools.__all__: public itertools callables of the running interpreter; extra names are diagnostics",
        "StreamTeeHub.__del__ is observed under CPython reference counting (del + gc.collect())",
    ]
    if ctx.thorough:
        m2_grid(ctx, al, "MiscX03T", "MiscX03T.cfg")
    else:
        m2_grid(ctx, al, "MiscX03Q", "MiscX03Q.cfg")
    replay_graph(ctx, al, "MiscCtl", "MiscCtl_thorough.cfg" if ctx.thorough else "MiscCtl.cfg", "cs")
    replay_graph(ctx, al, "MiscHub", "MiscHub_thorough.cfg" if ctx.thorough else "MiscHub.cfg", "hub")
    ctx.exhaustive = True
    if ctx.thorough:
        m3_records(ctx, al, 1500)
        m3_traces(ctx, al, 1000, 1000, 60)
    else:
        m3_records(ctx, al, 120)
        m3_traces(ctx, al, 80, 80, 40)
