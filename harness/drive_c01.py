"""C01 - Stream operators and broadcast functions act element by element.

M1  TLC: spec/stream/StreamOps.tla on the StreamOpsC01 program grid (pull machine of the expression tree ==
    index-wise definition, end with the shortest iterable operand, operator table shape) and
    spec/stream/Broadcast.tla (container-kind table).
M2  spec -> code: every program TLC enumerated is built from real Stream / list / tuple / generator objects
    with symbolic elements (Sym builds the term the operator was applied to) and the first Horizon outputs
    compared with the terms TLC exported; every disagreement goes to TLC (StreamOpsTrace) for the verdict
    modulo mirrored comparisons.  The same programs are re-run with int / float / complex / Fraction / bool
    leaves and compared with the symbolic terms interpreted by the stdlib operator module.
    Broadcast: every function x container kind x length TLC enumerated is called for real and the record
    (container kind returned, items read at call time, length, per-element agreement) judged by TLC.
M3  code -> spec: random trees of depth <= 5 over all 35 operators, lengths <= 12, judged by TLC.
"""
import collections
import itertools
import math
import operator
import os
from fractions import Fraction

import common
import tlaval
import tlc
import tracecheck

HORIZON = 5
BIN = ["add", "sub", "mul", "truediv", "floordiv", "mod", "pow", "rshift", "lshift", "and", "or", "xor", "matmul",
       "lt", "le", "eq", "ne", "gt", "ge"]
UN = ["pos", "neg", "invert"]
OPF = {n: getattr(operator, "__%s__" % n) for n in BIN + UN}


class Sym(object):
    """Opaque element: every operator returns the term it was applied to."""
    __slots__ = ("t",)

    def __init__(self, t):
        self.t = t

    def __hash__(self):
        return hash(self.t)

    def __repr__(self):
        return "Sym%r" % (self.t,)


def _mk(name):
    def dunder(a, b):
        if not isinstance(b, Sym):
            return NotImplemented
        return Sym((name, a.t, b.t))
    return dunder


for _n in BIN:
    setattr(Sym, "__%s__" % _n, _mk(_n))
for _n in UN:
    setattr(Sym, "__%s__" % _n, (lambda name: lambda a: Sym((name, a.t)))(_n))


def atom(leaf, j):
    return Sym(("c", leaf["id"])) if leaf["kind"] == "C" else Sym(("e", leaf["id"], j))


def build(al, x, variant, value_of):
    """Real operand for tree x.  value_of(atom term) -> element object."""
    if x["t"] == "leaf":
        k, n, i = x["kind"], x["n"], x["id"]
        if k == "C":
            return value_of(("c", i))
        items = [value_of(("e", i, j)) for j in range(1, n + 1)]
        if k == "P":
            return al.Stream(*items) if n > 1 else al.Stream(items[0])
        if k == "S":
            return al.Stream(items) if variant % 2 == 0 else al.Stream(it for it in items)
        v = (variant + i) % 3
        return items if v == 0 else tuple(items) if v == 1 else (it for it in items)
    if x["t"] == "un":
        return OPF[x["op"]](build(al, x["c"], variant, value_of))
    left = build(al, x["l"], variant, value_of)
    right = build(al, x["r"], variant, value_of)
    return OPF[x["op"]](left, right)


def observe(al, prog, variant, value_of=None):
    value_of = value_of or Sym
    res = build(al, prog, variant, value_of)
    if not isinstance(res, al.Stream):
        return None
    items = list(itertools.islice(iter(res), HORIZON))
    return items, len(items) < HORIZON


def to_json(term):
    return [to_json(x) if isinstance(x, tuple) else x for x in term]


def totuple(t):
    return tuple(totuple(x) if isinstance(x, (tuple, list)) else x for x in t)


def eval_term(term, env):
    if term[0] in ("e", "c"):
        return env[term]
    if len(term) == 2:
        return OPF[term[0]](eval_term(term[1], env))
    return OPF[term[0]](eval_term(term[1], env), eval_term(term[2], env))


def leaves_of(x, acc):
    if x["t"] == "leaf":
        acc.append(x)
    elif x["t"] == "un":
        leaves_of(x["c"], acc)
    else:
        leaves_of(x["l"], acc)
        leaves_of(x["r"], acc)
    return acc


def ops_of(x, acc):
    if x["t"] != "leaf":
        acc.add(x["op"])
        for k in ("c", "l", "r"):
            if k in x:
                ops_of(x[k], acc)
    return acc


def depth_of(x):
    if x["t"] == "leaf":
        return 0
    return 1 + max(depth_of(x[k]) for k in ("c", "l", "r") if k in x)


POOLS = {
    "int": [3, 5, 2, 7, 1, 4, 6],
    "float": [1.5, -2.25, 0.5, 3.0, 4.75, -1.25, 2.5],
    "complex": [1 + 2j, 2 - 1j, -1 + 0.5j, 3j, 2 + 0j, 1 - 1j, -2 - 2j],
    "Fraction": [Fraction(1, 2), Fraction(-3, 4), Fraction(5, 3), Fraction(2), Fraction(7, 5), Fraction(-1, 3),
                 Fraction(4, 9)],
    "bool": [True, False, True, True, False, False, True],
}
SAFE_DEEP = {"add", "sub", "mul", "lt", "le", "eq", "ne", "gt", "ge", "and", "or", "xor", "neg", "pos", "invert",
             "truediv"}


def same_value(a, b):
    if type(a) is not type(b):
        return False
    if isinstance(a, float) and math.isnan(a) and math.isnan(b):
        return True
    return a == b


def concrete_runs(ctx, al, prog, sym_terms, variant):
    """Same program on concrete element types; expectation = the symbolic terms interpreted with `operator`."""
    ops = ops_of(prog, set())
    if depth_of(prog) > 1 and not ops <= SAFE_DEEP:
        return
    for tname, pool in POOLS.items():
        env = {}

        def value_of(a, pool=pool, env=env):
            v = pool[(a[1] * 3 + (a[2] if len(a) > 2 else 0)) % len(pool)]
            env[a] = v
            return v
        try:
            obs = observe(al, prog, variant, value_of)
        except Exception as ex:          # the element type does not implement the operator here
            obs = ("exc", type(ex).__name__)
        try:
            want = [eval_term(t, env) for t in sym_terms]
        except Exception as ex:
            want = ("exc", type(ex).__name__)
        if isinstance(want, tuple) or isinstance(obs, tuple) and obs[0] == "exc":
            continue                      # outside "element types that implement the operator"
        ctx.count(1)
        got = obs[0]
        if len(got) != len(want) or not all(same_value(g, w) for g, w in zip(got, want)):
            ctx.violation("C01:concrete:%s" % tname,
                          {"program": prog, "element_type": tname, "expected": repr(want), "observed": repr(got)})


LADDER = [2, 2.0, Fraction(2), True, 1, 1.0, Fraction(1), Fraction(1, 2), 0.5]


def scalar_ladder(ctx, al):
    """Equal scalars of different types in successive expressions: every expression uses the operand IT was given
    (the repeated value is that object, not an equal one met earlier)."""
    elems = [Fraction(1, 3), Fraction(5, 3), Fraction(7, 2)]
    for name in ("add", "sub", "mul", "truediv", "pow", "floordiv", "mod", "lt", "eq", "ge"):
        f = OPF[name]
        for side in ("right", "left"):
            for sc in LADDER + LADDER[::-1]:
                try:
                    want = [f(e, sc) if side == "right" else f(sc, e) for e in elems]
                except Exception:
                    continue
                try:
                    res = f(al.Stream(elems), sc) if side == "right" else f(sc, al.Stream(elems))
                    got = list(res)
                except Exception as ex:
                    got = ["raised " + type(ex).__name__]
                ctx.count(1)
                if len(got) != len(want) or not all(same_value(g, w) for g, w in zip(got, want)):
                    ctx.violation("C01:scalar-operand:%s" % name,
                                  {"expression": "Stream(thirds) %s %r" % (name, sc) if side == "right" else
                                   "%r %s Stream(thirds)" % (sc, name), "expected": repr(want), "observed": repr(got)})


def constant_operands(ctx, al):
    """Iterable operands whose items are all the same object (itertools.repeat with a count, a Stream made of one,
    a list of n equal items): still iterables - the result has min(length) items - not scalars."""
    elems = [Fraction(1, 3), Fraction(5, 3), Fraction(7, 2), Fraction(-2), Fraction(9, 4)]
    makers = (("repeat(c, n)", lambda c, n: itertools.repeat(c, n)),
              ("Stream(repeat(c, n))", lambda c, n: al.Stream(itertools.repeat(c, n))),
              ("[c] * n", lambda c, n: [c] * n),
              ("iter((c,) * n)", lambda c, n: iter((c,) * n)))
    for name in ("add", "sub", "mul", "truediv", "pow", "lt", "eq"):
        f = OPF[name]
        for side in ("right", "left"):
            for c in (2, Fraction(1, 2), 1.5):
                for n in (0, 1, 2, 5, 7):
                    for label, mk in makers:
                        want = [f(e, c) if side == "right" else f(c, e) for e in elems[:n]]
                        try:
                            res = f(al.Stream(elems), mk(c, n)) if side == "right" else f(mk(c, n), al.Stream(elems))
                            got = list(itertools.islice(iter(res), len(elems) + 3))
                        except Exception as ex:
                            got = ["raised " + type(ex).__name__]
                        ctx.count(1)
                        if len(got) != len(want) or not all(same_value(g, w) for g, w in zip(got, want)):
                            ctx.violation("C01:constant-iterable-operand:%s" % name,
                                          {"operand": label, "c": repr(c), "n": n, "side": side,
                                           "expected": repr(want), "observed": repr(got)})


def power_operands(ctx, al):
    """`stream ** c` is Python's `e ** c` on every element - also where that leaves the reals (negative bases with
    fractional exponents, complex bases) and for every float the short cuts sqrt / x*x would round differently."""
    elems = [-4.0, 9.0, -2.25, 71.93814951479868, 2, Fraction(9, 4), 3 + 4j, 0.1, 1e-7, 12345.678]
    for c in (0.5, 2, 2.0, -1, 0.25, 1.5, Fraction(1, 2), 3, -0.5):
        for side in ("right", "left"):
            if side == "left" and isinstance(c, Fraction):
                continue      # Fraction.__pow__(c, stream) itself turns c into a float before the Stream is asked
            want = []
            for e in elems:
                try:
                    want.append(e ** c if side == "right" else c ** e)
                except Exception as ex:
                    want.append("raises " + type(ex).__name__)
            if any(isinstance(w, str) for w in want):
                continue
            try:
                res = al.Stream(elems) ** c if side == "right" else c ** al.Stream(elems)
                got = list(res)
            except Exception as ex:
                got = ["raised " + type(ex).__name__]
            ctx.count(1)
            if len(got) != len(want) or not all(same_value(g, w) for g, w in zip(got, want)):
                ctx.violation("C01:power-operand", {"exponent" if side == "right" else "base": repr(c), "side": side,
                                                    "expected": repr(want), "observed": repr(got)})


def prog_key(prog):
    return tlaval.to_tla(prog)


def m2_expr(ctx, al, module, cfg):
    d = tlc.scratch_dir("c01")
    dump = os.path.join(d, "st")
    r = tlc.require_ok(tlc.run(module, cfg, dump=dump, timeout=3000), "StreamOps " + cfg,
                       need_actions=("Pull",))
    ctx.add_tlc(r, "StreamOps %s: pull machine == element-wise definition" % cfg)
    doubt = []
    n = 0
    ops_seen = set()
    for st in tlaval.read_dump(dump + ".dump"):
        if not (st["ended"] or len(st["out"]) == HORIZON):
            continue
        n += 1
        prog = st["prog"]
        ops_seen |= ops_of(prog, set())
        want = [totuple(t) for t in st["out"]]
        obs = observe(al, prog, n)
        ctx.count(1, nontrivial_key=n if depth_of(prog) >= 2 or len(want) >= 2 else None)
        if obs is None:
            ctx.violation("C01:expr:not-a-stream", {"program": prog})
            continue
        got = [s.t for s in obs[0]]
        if n % 2003 == 0:
            ctx.sample({"program": prog_key(prog), "outputs": repr(got)[:300]})
        if got != want or obs[1] != st["ended"]:
            doubt.append({"what": "expr", "prog": prog, "out": [to_json(t) for t in got], "ended": obs[1]})
        else:
            ctx.traces += 1
        concrete_runs(ctx, al, prog, [s.t for s in obs[0]], n)
    if set(BIN + UN) - ops_seen:
        raise tlc.MachineryError("operators never enumerated: %s" % sorted(set(BIN + UN) - ops_seen))
    ctx.log("M2 %s: %d programs replayed, %d not literally equal to the operational layer" % (cfg, n, len(doubt)))
    judge(ctx, doubt, "C01 programs whose terms differ from the operational layer")


def judge(ctx, recs, what):
    if not recs:
        return
    bad = tracecheck.run_records(ctx, "StreamOpsTrace", {"Programs": "{}", "Horizon": HORIZON}, recs, what=what,
                                 chunk=2000)
    ctx.traces += len(recs) - len(bad)
    for i, info in sorted(bad.items()):
        r = recs[i - 1]
        if r["what"] == "expr":
            ops = sorted(ops_of(r["prog"], set()))
            ctx.violation("C01:expr:%s:%s" % (info[0], ops[0] if len(ops) == 1 else "nested"),
                          {"program": r["prog"], "observed": r["out"], "ended": r["ended"], "clause": info[0]})
        else:
            ctx.violation("C01:broadcast:%s:%s" % (info[0], r["kind"]), dict(r, clause=info[0]))


# ---- random deeper trees --------------------------------------------------------------------------
def random_tree(rng, depth, ids):
    if depth == 0 or rng.random() < 0.15:
        k = rng.choice(["S", "S", "P", "I", "I", "C"])
        ids[0] += 1
        n = 0 if k == "C" else rng.randint(1, 3) if k == "P" else rng.randint(0, 12)
        return {"t": "leaf", "kind": k, "id": ids[0], "n": n}
    if rng.random() < 0.2:
        c = random_tree(rng, depth - 1, ids)
        if c["t"] == "leaf" and c["kind"] not in ("S", "P"):
            c["kind"] = "S"
        return {"t": "un", "op": rng.choice(UN), "c": c}
    l = random_tree(rng, depth - 1, ids)
    r = random_tree(rng, depth - 1, ids)
    streamy = lambda x: x["t"] != "leaf" or x["kind"] in ("S", "P")
    if not (streamy(l) or streamy(r)):
        (l if rng.random() < 0.5 else r)["kind"] = "S"
    return {"t": "bin", "op": rng.choice(BIN), "l": l, "r": r}


def fix_scalar_len(x):
    if x["t"] == "leaf":
        if x["kind"] == "C":
            x["n"] = 0
        if x["kind"] == "P" and x["n"] == 0:
            x["n"] = 1
    else:
        for k in ("c", "l", "r"):
            if k in x:
                fix_scalar_len(x[k])


def m3_expr(ctx, al, count):
    rng = ctx.rng
    recs = []
    for k in range(count):
        prog = random_tree(rng, rng.randint(2, 5), [0])
        fix_scalar_len(prog)
        obs = observe(al, prog, k)
        if obs is None:
            continue
        recs.append({"what": "expr", "prog": prog, "out": [to_json(s.t) for s in obs[0]], "ended": obs[1]})
        ctx.count(1, nontrivial_key=("m3", k))
    ctx.sample({"random_program": prog_key(recs[0]["prog"])[:400], "outputs": repr(recs[0]["out"])[:300]})
    ctx.log("M3: %d random trees recorded" % len(recs))
    judge(ctx, recs, "C01 random expression trees")


# ---- broadcast functions ---------------------------------------------------------------------------
def broadcast_functions(al):
    names = ["acos", "acosh", "asin", "asinh", "atan", "atanh", "ceil", "cos", "cosh", "degrees", "erf", "erfc", "exp",
             "expm1", "fabs", "floor", "frexp", "gamma", "isinf", "isnan", "lgamma", "modf", "radians", "sin", "sinh",
             "sqrt", "tan", "tanh", "trunc", "log", "log1p", "log10", "log2", "ln", "absolute", "cexp", "phase",
             "factorial", "dB10", "dB20", "sign", "midi2freq", "freq2midi"]
    out = []
    for n in names:
        f = getattr(al, n)
        pool = {"acos": [0.0, 0.5, -0.25, 1.0], "asin": [0.0, 0.5, -0.25, 1.0], "atanh": [0.0, 0.5, -0.25, 0.75],
                "acosh": [1.0, 1.5, 2.0, 4.0], "factorial": [0, 1, 3, 5], "gamma": [0.5, 1.0, 2.5, 4.0],
                "lgamma": [0.5, 1.0, 2.5, 4.0], "midi2freq": [69, 60, 57.5, 72], "freq2midi": [440.0, 220.0, 261.6, 1e3],
                }.get(n, [0.25, 1.0, 2.5, 4.0])
        out.append((n, f, pool))
    return out


class Counting(object):
    def __init__(self, items):
        self.items = list(items)
        self.read = 0

    def __iter__(self):
        for x in self.items:
            self.read += 1
            yield x


def make_container(al, kind, items):
    """(container, reads()) with reads() = source items consumed so far (None when not observable)."""
    src = Counting(items)
    if kind == "scalar":
        return items[0], lambda: 0
    if kind == "str":
        return None, None
    if kind == "list":
        return list(items), lambda: 0
    if kind == "tuple":
        return tuple(items), lambda: 0
    if kind == "deque":
        return collections.deque(items), lambda: 0
    if kind == "set":
        return set(items), lambda: 0
    if kind == "frozenset":
        return frozenset(items), lambda: 0
    if kind == "Stream":
        return al.Stream(iter(src)), lambda: src.read
    if kind == "StreamTeeHub":
        return al.thub(al.Stream(iter(src)), 1), lambda: src.read
    if kind == "Streamix":
        mix = al.Streamix(zero=0)
        mix.add(0, iter(src))
        return mix, lambda: src.read
    if kind == "ControlStream":
        return None, None
    if kind == "generator":
        return (x for x in src), lambda: src.read
    if kind == "range":
        return None, None
    if kind == "map":
        return map(lambda x: x, src), lambda: src.read
    if kind == "filter":
        return filter(lambda x: True, src), lambda: src.read
    if kind == "zip":
        return None, None
    if kind == "enumerate":
        return None, None
    raise ValueError(kind)


def kind_of(al, obj):
    import types
    if isinstance(obj, al.Stream):
        return "Stream"
    if isinstance(obj, types.GeneratorType):
        return "generator"
    for k, t in (("list", list), ("tuple", tuple), ("deque", collections.deque), ("set", set),
                 ("frozenset", frozenset), ("range", range), ("map", map), ("filter", filter), ("zip", zip),
                 ("enumerate", enumerate), ("str", str)):
        if type(obj) is t:
            return k
    return "scalar"


# functions of the family that take a secondary parameter: (name, broadcast keyword, secondary name, values, items)
SECONDARY = [("log", "x", "base", [2, 10, 0.5], [1.0, 8.0, 64.0, 0.25]),
             ("midi2str", "midi_number", "sharp", [False, True], [60, 61, 70, 63])]
# (wrappers of C builtins - absolute, cexp, phase, the math functions - do not accept keyword arguments at all)
KWNAME = {"factorial": "n", "dB10": "data", "dB20": "data", "sign": "x", "midi2freq": "midi_number",
          "freq2midi": "freq", "log": "x", "log1p": "x", "ln": "x"}


def call_forms(ctx, al, recs):
    """f(C, p), f(C, name=p), f(x=C), f(x=C, name=p): the i-th output is f(C[i], p) in every calling form."""
    for kind in ("list", "tuple", "Stream", "generator", "deque", "map"):
        for name, bname, pname, pvals, items in SECONDARY:
            f = getattr(al, name)
            for pv in pvals:
                want = [f(x, pv) for x in items]
                for form in ("positional", "keyword", "bcast-keyword", "both-keyword"):
                    cont, reads = make_container(al, kind, items)
                    try:
                        if form == "positional":
                            res = f(cont, pv)
                        elif form == "keyword":
                            res = f(cont, **{pname: pv})
                        elif form == "bcast-keyword":
                            res = f(pv if False else cont) if False else f(**{bname: cont, pname: pv})
                        else:
                            res = f(**{bname: cont, pname: pv})
                    except Exception as ex:
                        ctx.violation("C01:broadcast:raises:%s" % form, {"fn": name, "kind": kind, "form": form,
                                                                         "error": repr(ex)})
                        continue
                    read_at_call = reads()
                    got = list(res)
                    ok = len(got) == len(want) and all(same_value(g, w) for g, w in zip(got, want))
                    recs.append({"what": "bcast", "fn": "%s(%s=%r) %s" % (name, pname, pv, form), "kind": kind,
                                 "n": len(items), "outkind": kind_of(al, res), "read_at_call": read_at_call,
                                 "outlen": len(got), "elementwise": bool(ok)})
                    ctx.count(1, nontrivial_key=("bk", name, kind, repr(pv), form))
        # keyword form of the broadcast argument for one-parameter functions
        for name, bname in sorted(KWNAME.items()):
            f = getattr(al, name)
            items = [1, 3, 4] if name == "factorial" else [0.25, 1.0, 2.5]
            cont, reads = make_container(al, kind, items)
            try:
                res = f(**{bname: cont})
            except Exception as ex:
                ctx.violation("C01:broadcast:raises:keyword", {"fn": name, "kind": kind, "error": repr(ex)})
                continue
            read_at_call = reads()
            got = list(res)
            want = [f(x) for x in items]
            ok = len(got) == len(want) and all(same_value(g, w) for g, w in zip(got, want))
            recs.append({"what": "bcast", "fn": "%s(%s=...)" % (name, bname), "kind": kind, "n": len(items),
                         "outkind": kind_of(al, res), "read_at_call": read_at_call, "outlen": len(got),
                         "elementwise": bool(ok)})
            ctx.count(1)


def m2_broadcast(ctx, al):
    d = tlc.scratch_dir("c01b")
    dump = os.path.join(d, "st")
    r = tlc.require_ok(tlc.run("Broadcast", "Broadcast.cfg", dump=dump), "Broadcast table")
    ctx.add_tlc(r, "Broadcast: container-kind table")
    cases = sorted((st["kind"], st["n"]) for st in tlaval.read_dump(dump + ".dump"))
    recs = []
    for name, f, pool in broadcast_functions(al):
        for kind, n in cases:
            items = pool[:n]
            if kind == "range":
                if name not in ("absolute", "sign", "factorial", "exp", "sqrt", "dB10", "cos"):
                    continue
                cont, reads = range(n), (lambda: 0)
                items = list(range(n))
                if name in ("dB10",):
                    pass
            elif kind in ("zip", "enumerate"):
                # elements are tuples: only the laziness / container clauses are observable
                src = Counting(items)
                cont = zip(src) if kind == "zip" else enumerate(src)
                res = f(cont)
                recs.append({"what": "bcast", "fn": name, "kind": kind, "n": n, "outkind": kind_of(al, res),
                             "read_at_call": src.read, "outlen": n, "elementwise": True})
                continue
            elif kind == "str":
                continue
            elif kind == "ControlStream":
                # an endless stream of its control value: the first n outputs are f(value)
                if n == 0:
                    continue
                cs = al.ControlStream(pool[0])
                try:
                    res = f(cs)
                    got = res.take(n) if isinstance(res, al.Stream) else None
                except Exception as ex:
                    ctx.violation("C01:broadcast:raises:%s" % kind, {"fn": name, "kind": kind, "error": repr(ex)})
                    continue
                ok = got is not None and len(got) == n and all(same_value(g, f(pool[0])) for g in got)
                recs.append({"what": "bcast", "fn": name, "kind": kind, "n": n, "outkind": kind_of(al, res),
                             "read_at_call": 0, "outlen": n if got is not None else -1, "elementwise": bool(ok)})
                ctx.count(1)
                continue
            else:
                cont, reads = make_container(al, kind, items)
            try:
                res = f(cont)
            except Exception as ex:
                ctx.violation("C01:broadcast:raises:%s" % kind, {"fn": name, "kind": kind, "items": repr(items),
                                                                 "error": repr(ex)})
                continue
            read_at_call = reads()
            ok = True
            outlen = 0
            outkind = kind_of(al, res)
            if kind == "scalar":
                # scalar in, scalar out = the function applied directly (frexp/modf naturally return a pair)
                raw = getattr(f, "__wrapped__", None)
                ok = same_value(res, raw(items[0])) if raw is not None else True
                outkind = "scalar" if ok else "changed"
                outlen = 1
            else:
                # (bounded: a wrongly rebuilt Stream subclass can come back endless)
                got = list(itertools.islice(iter(res), len(items) + 3))
                outlen = len(got)
                want = [f(x) for x in items]
                if kind in ("set", "frozenset"):
                    ok = set(map(repr, got)) == set(map(repr, want))
                else:
                    ok = len(got) == len(want) and all(same_value(g, w) for g, w in zip(got, want))
            recs.append({"what": "bcast", "fn": name, "kind": kind, "n": n, "outkind": outkind,
                         "read_at_call": read_at_call, "outlen": outlen, "elementwise": bool(ok)})
            ctx.count(1, nontrivial_key=("b", name, kind, n) if n >= 2 else None)
    call_forms(ctx, al, recs)
    ctx.sample({"broadcast_record": recs[len(recs) // 2]})
    ctx.log("broadcast: %d calls recorded" % len(recs))
    judge(ctx, recs, "C01 broadcast calls")


def op_table(ctx, al):
    """The 35-row operator table and the dunders actually present on Stream."""
    rows = list(al.OpMethod.get("all"))
    got = sorted((o.name, bool(o.rev), o.arity) for o in rows)
    want = sorted([(o, False, 2) for o in BIN] + [("r" + o, True, 2) for o in BIN[:13]] + [(o, False, 1) for o in UN])
    ctx.count(1)
    if got != want:
        ctx.violation("C01:optable", {"expected": want, "observed": got})
    for name, rev, ar in want:
        if not callable(getattr(al.Stream, "__%s__" % name, None)):
            ctx.violation("C01:optable:missing-dunder", {"dunder": name})


def check(ctx):
    al = common.import_audiolazy()
    ctx.rule = ("M2: every expression tree TLC enumerated, on symbolic and on 5 concrete element types; every "
                "(function, container kind, length) of the broadcast table; non-trivial = depth >= 2 or >= 2 outputs; "
                "M3: random trees of depth <= 5")
    ctx.assumptions = ["at least one operand of every binary node is Stream-typed (otherwise no Stream method runs)",
                       "values of transcendental functions are compared with the same function applied per element",
                       "concrete element types only where the type implements the operator"]
    op_table(ctx, al)
    scalar_ladder(ctx, al)
    constant_operands(ctx, al)
    power_operands(ctx, al)
    if ctx.thorough:
        m2_expr(ctx, al, "StreamOpsC01T", "StreamOpsC01T.cfg")
        m3_expr(ctx, al, 6000)
    else:
        m2_expr(ctx, al, "StreamOpsC01Q", "StreamOpsC01Q.cfg")
        m3_expr(ctx, al, 600)
    m2_broadcast(ctx, al)
    ctx.exhaustive = True
