"""X02, code -> spec: seeded random larger cases recorded from the real code and judged by TLC
(spec/trace/FilterStructTrace.tla)."""
import itertools
from fractions import Fraction

import tlc
import tracecheck
from exact import LinForm
from x02_lib import (F, INF, Bad, World, Source, rat, rat_of, pynum, exact, obs_poly, pairs, vecs, xs, member_str,
                     coef_py, const, plain)

MAXLEN, MAXMEM = 12, 8
NS = MAXLEN + 1 + MAXMEM
BITS = 13                # every numerator / denominator the specification meets stays below 2^BITS (pre-screen)


# ---------------------------------------------------------------------------------------------------
# comb
def alpha_at(a, t):
    if a["k"] == "c":
        return rat_of(a["v"])
    s = a["s"]
    return rat_of(s[t % len(s)]) if a["per"] else rat_of(s[t])


def comb_majorant_ok(form, D, a, n, mem=None):
    """from the inputs alone: every rational the specification meets while evaluating the comb equation for n outputs
    stays inside TLC's integers (ys: bound on the sum of |coefficients| of y[t]; ds: a common multiple of their denominators)"""
    from math import lcm
    k = D.numerator // D.denominator
    w = D - k
    ys, ds = [], []
    for t in range(n):
        alt = alpha_at(a, t)
        al = abs(alt)

        def Y(j):
            return (ys[j], ds[j]) if j >= 0 else (F(1), 1)
        if form == "ff":
            y, d = 1 + al, alt.denominator * w.denominator
        elif D == 0:
            g = 1 - alt
            y, d = 1 / abs(g), abs(g.numerator)
        elif D < 1:
            g = 1 - alt * (1 - w)
            c = alt * w
            y1, d1 = Y(t - 1)
            y, d = (1 + abs(c) * y1) / abs(g), lcm(1, c.denominator * d1) * abs(g.numerator)
        else:
            c1, c2 = alt * (1 - w), alt * w
            (y1, d1), (y2, d2) = Y(t - k), Y(t - k - 1)
            y = 1 + abs(c1) * y1 + abs(c2) * y2
            d = lcm(c1.denominator * d1, c2.denominator * d2 if w else 1)
        ys.append(y)
        ds.append(d)
        if y * d * d >= (1 << 29):
            return False
    return True


def rand_alpha(rng, allow_stream):
    pool = [F(1), F(-1), F(1, 2), F(-1, 2), F(2), F(1, 4), F(3, 4), F(-2), F(0), F(3, 2)]
    r = rng.random()
    if not allow_stream or r < 0.6:
        return const(rng.choice(pool))
    vals = [rat(rng.choice(pool[:8])) for _ in range(rng.randint(1, 3))]
    if r < 0.8:
        return {"k": "s", "s": vals, "per": True}
    return {"k": "s", "s": [rat(rng.choice(pool[:8])) for _ in range(rng.randint(0, 7))], "per": False}


def m3_comb(ctx, al, rng, count, recs, meta):
    made = tries = 0
    names = {n[0]: n for n in al.comb.keys()}
    while made < count and tries < count * 40:
        tries += 1
        form = rng.choice(["fb", "ff", "fb", "ff", "tau"])
        D = F(rng.randint(0, 6)) + rng.choice([0, 0, 0, F(1, 4), F(1, 2), F(3, 4)])
        if rng.random() < 0.04 and form == "ff":
            D = F(-rng.randint(1, 2))
        a = const(1) if form == "tau" else rand_alpha(rng, D >= 1)
        if D == 0 and (form == "tau" or a["k"] != "c" or rat_of(a["v"]) in (1, -1)):
            continue
        if D < 0 and rat_of(a["v"]) == 0:
            continue
        if 0 < D < 1 and form != "ff" and rat_of(a["v"]) * (1 - D) == 1:
            continue
        lin = D.denominator != 1 or rng.random() < 0.3
        mem = rng.choice(["none", "exact"]) if form != "ff" else "none"
        zero = rng.choice(["sym", "sym", "num"])
        k = D.numerator // D.denominator
        lm = 0 if form == "ff" else (k + (1 if D.denominator != 1 else 0))
        if lm > MAXMEM:
            continue
        n = rng.randint(0, MAXLEN)
        if D >= 0:
            while n > 0 and not comb_majorant_ok(form, D, a, min(n, 10 ** 6 if a["k"] == "c" or a["per"] else len(a["s"])), mem):
                n -= 1
        alias = rng.choice(names[form])
        d = int(D) if D.denominator == 1 and rng.random() < 0.7 else float(D)
        info = {"form": form, "alias": alias, "delay": str(D), "alpha": str(a), "linearize": lin, "memory": mem, "zero": zero, "len": n}
        try:
            if form == "tau":
                f = al.comb[alias](d) if rng.random() < 0.5 else al.comb[alias](d, float("inf"))
            else:
                f = al.comb[alias](d, coef_py(al, a))
            if lin:
                f = f.linearize()
            kw = {"zero": LinForm.sym(MAXLEN + 1) if zero == "sym" else rng.choice([0, 0.0])}
            if mem == "exact":
                kw["memory"] = [LinForm.sym(MAXLEN + 1 + j) for j in range(1, lm + 1)]
            out, err = list(f(xs(n), **kw)), "none"
        except ValueError:
            out, err = [], "ValueError"
        except Exception as ex:
            ctx.count(1)
            ctx.violation("X02:comb-%s-raises" % form, dict(info, raised="%s: %s" % (type(ex).__name__, str(ex)[:160])))
            continue
        try:
            ov = vecs(out, NS)
        except Bad as ex:
            ctx.count(1)
            ctx.violation("X02:comb-%s-inexact" % form, dict(info, why=str(ex)))
            continue
        if any(abs(p[0]) >= (1 << 30) or p[1] >= (1 << 30) for v in ov for p in v):
            ctx.count(1)
            ctx.violation("X02:comb-%s-magnitude" % form, dict(info, why="observed value outside the range of every specified value"))
            continue
        recs.append({"op": "comb", "form": form, "delay": rat(D), "alpha": a if form != "tau" else const(1), "lin": lin,
                     "mem": mem, "zero": zero, "len": n, "err": err, "out": ov})
        meta.append(dict(info, observed=[repr(o) for o in out][:5], err=err,
                         cls="fractional-stream-alpha" if (a["k"] == "s" and D.denominator != 1) else
                         ("fractional" if D.denominator != 1 else "equation")))
        made += 1
        ctx.count(1, nontrivial_key=("m3", len(recs)) if n >= 3 else None)


# ---------------------------------------------------------------------------------------------------
# list histories
def c_(v):
    return const(v)


POOL = [
    {"m": "flt", "b": [c_(1), c_(1)], "a": [c_(1)], "adv": 0},
    {"m": "flt", "b": [c_(1)], "a": [c_(1), c_(F(-1, 2))], "adv": 0},
    {"m": "flt", "b": [c_(0), c_(0), c_(1)], "a": [c_(1)], "adv": 0},
    {"m": "flt", "b": [c_(2), c_(-1)], "a": [c_(1), c_(0), c_(F(1, 2))], "adv": 0},
    {"m": "flt", "b": [c_(0), c_(1)], "a": [c_(1)], "adv": 0},
    {"m": "flt", "b": [c_(1), c_(0), c_(-1)], "a": [c_(2)], "adv": 0},
    {"m": "num", "c": rat(3)}, {"m": "num", "c": rat(F(1, 2))}, {"m": "num", "c": rat(-1)},
    {"m": "fn"},
]
ODD = [
    {"m": "flt", "b": [c_(1), c_(1)], "a": [c_(1)], "adv": 1},                                            # z + 1
    {"m": "flt", "b": [c_(1), {"k": "s", "s": [rat(1), rat(2)], "per": True}], "a": [c_(1)], "adv": 0},   # time varying
]


def rand_member(rng, depth=0, odd=0.08):
    r = rng.random()
    if r < odd:
        return rng.choice(ODD)
    if r < 0.2 and depth < 2:
        return {"m": "box", "cls": rng.choice(["C", "P"]), "items": [rand_member(rng, depth + 1, odd) for _ in range(rng.randint(0, 2))]}
    return rng.choice(POOL)


def leaves(m):
    if m["m"] == "box":
        for x in m["items"]:
            for y in leaves(x):
                yield y
    else:
        yield m


def m3_hist(ctx, al, rng, count, recs, meta):
    for _ in range(count):
        W = World(al)
        cls = rng.choice(["C", "P", "C", "P", "L"])
        if rng.random() < 0.5:
            args = [rand_member(rng) for _ in range(rng.randint(0, 3))]
            route = "args"
        else:
            args = [{"m": "seq", "items": [rand_member(rng) for _ in range(rng.randint(0, 3))]}]
            route = rng.choice(["list", "tuple", "gen"])
        info = {"class": cls, "args": [member_str(a) for a in args], "given_as": route}
        try:
            b = W.container(cls, args, route if route != "args" else "list")
            built = W.describe(b)
            events, obs = [], []
            for _e in range(rng.randint(4, 10)):
                op = rng.choice(["append", "extend", "iadd", "concat", "times", "imul", "reverse", "insert", "pop", "index", "slice"])
                ev = {"op": op, "x": {"m": "none"}, "k": 0, "lo": 0, "hi": 0}
                ret = {"t": "none"}
                size = len(b)
                if op in ("times", "imul") and size > 6:
                    op = ev["op"] = "pop"
                if op == "append":
                    ev["x"] = rand_member(rng)
                    b.append(W.build(ev["x"]))
                elif op in ("extend", "iadd", "concat"):
                    x = {"m": "seq", "items": [rand_member(rng) for _ in range(rng.randint(0, 2))]}
                    if op == "concat" and rng.random() < 0.4:
                        x = {"m": "box", "cls": rng.choice(["C", "P", "L"]), "items": x["items"]}
                    ev["x"] = x
                    if op == "extend":
                        b.extend(W.build(x, rng.choice(["list", "tuple", "gen"])))
                    elif op == "iadd":
                        b += W.build(x, rng.choice(["list", "tuple", "gen"]))
                    else:
                        b = b + W.build(x, "list")
                elif op in ("times", "imul"):
                    ev["k"] = rng.choice([0, 1, 2, 2, 3, -1])
                    if op == "times":
                        b = (b * ev["k"]) if rng.random() < 0.5 else (ev["k"] * b)
                    else:
                        b *= ev["k"]
                elif op == "reverse":
                    b.reverse()
                elif op == "insert":
                    ev["k"] = rng.randint(-size - 2, size + 2)
                    ev["x"] = rand_member(rng)
                    b.insert(ev["k"], W.build(ev["x"]))
                elif op in ("pop", "index"):
                    ev["k"] = rng.randint(-size - 1, size)
                    try:
                        v = b.pop(ev["k"]) if op == "pop" else b[ev["k"]]
                        ret = {"t": "member", "v": W.describe(v)}
                    except IndexError:
                        ret = {"t": "err", "e": "IndexError"}
                elif op == "slice":
                    ev["lo"], ev["hi"] = rng.randint(-size - 1, size + 1), rng.randint(-size - 1, size + 1)
                    ret = {"t": "items", "v": [W.describe(v) for v in b[ev["lo"]:ev["hi"]]]}
                events.append(ev)
                obs.append({"box": W.describe(b), "ret": ret})
            final = {"linear": bool(b.is_linear()), "lti": bool(b.is_lti()), "causal": bool(b.is_causal())}
            # the call: decided from the members that were put in (the inputs), not from the code's answers
            desc = W.describe(b)
            lv = list(leaves(desc))
            call = {"done": False, "zero": "num", "err": "none", "len": 0, "out": [], "reads": 0, "reads0": 0}
            runnable = desc["cls"] in ("C", "P") and len(lv) <= 5 and all(
                x["m"] != "flt" or all(c["k"] == "c" for c in x["b"] + x["a"]) for x in lv)
            if runnable:
                n = rng.randint(0, 6)
                zero = rng.choice(["sym", "num"])
                src = Source(xs(n))
                call.update(done=True, zero=zero, len=n)
                try:
                    r = b(src if rng.random() < 0.5 else al.Stream(src), zero=LinForm.sym(MAXLEN + 1) if zero == "sym" else 0)
                    call["reads0"] = src.n
                    call["out"] = vecs(list(r), NS)
                    call["reads"] = src.n
                except ValueError:
                    call["err"] = "ValueError"
        except Bad as ex:
            ctx.count(1)
            ctx.violation("X02:hist-inexact", dict(info, why=str(ex)))
            continue
        except Exception as ex:
            ctx.count(1)
            ctx.violation("X02:hist-raises", dict(info, raised="%s: %s" % (type(ex).__name__, str(ex)[:160]),
                                                  events=[e["op"] for e in events]))
            continue
        recs.append({"op": "hist", "cls": cls, "args": args, "built": built, "events": events, "obs": obs, "final": final,
                     "call": call})
        meta.append(dict(info, events=[(e["op"], e["k"], member_str(e["x"])) for e in events], final=final,
                         end=member_str(desc), call={k: call[k] for k in ("done", "zero", "err", "len", "reads")}))
        ctx.count(1, nontrivial_key=("m3", len(recs)))


# ---------------------------------------------------------------------------------------------------
# ZFilter properties / linearize
def rand_poly(rng, lo, hi, maxterms, dens=(1, 1, 1, 2, 4)):
    ks = rng.sample(range(lo, hi + 1), rng.randint(0, min(maxterms, hi - lo + 1)))
    return {k: F(rng.choice([-3, -2, -1, 1, 2, 3, 5]), rng.choice(dens)) for k in ks}


def m3_zf(ctx, al, rng, count, recs, meta):
    for _ in range(count):
        n = rand_poly(rng, rng.choice([0, 0, -3]), 7, 5)
        d = rand_poly(rng, rng.choice([0, 0, 0, -2, 2]), 6, 3)
        if not d:
            d = {0: F(1)}
        frac = rng.random() < 0.5
        conv = (lambda c: c) if frac else pynum
        cls = rng.choice([al.ZFilter, al.lazy_filters.LinearFilter])
        info = {"num": {str(k): str(v) for k, v in n.items()}, "den": {str(k): str(v) for k, v in d.items()},
                "class": cls.__name__, "coefficients": "Fraction" if frac else "float"}
        try:
            f = cls({k: conv(c) for k, c in n.items()}, {k: conv(c) for k, c in d.items()})

            def dense(name):
                try:
                    return {"err": "none", "v": [rat(exact(x)) for x in getattr(f, name)]}
                except ValueError:
                    return {"err": "ValueError", "v": []}

            def polyz(name):
                try:
                    return {"err": "none", "v": pairs(obs_poly(getattr(f, name)))}
                except ValueError:
                    return {"err": "ValueError", "v": []}
            rec = {"op": "zf", "n": pairs(n), "d": pairs(d), "on": pairs(obs_poly(f.numpoly)), "od": pairs(obs_poly(f.denpoly)),
                   "causal": bool(f.is_causal()), "numlist": dense("numlist"), "denlist": dense("denlist"),
                   "numpolyz": polyz("numpolyz"), "denpolyz": polyz("denpolyz")}
        except Exception as ex:
            ctx.count(1)
            ctx.violation("X02:zf-raises", dict(info, raised="%s: %s" % (type(ex).__name__, str(ex)[:160])))
            continue
        recs.append(rec)
        meta.append(info)
        ctx.count(1, nontrivial_key=("m3", len(recs)))


def m3_lin(ctx, al, rng, count, recs, meta):
    for _ in range(count):
        def fpoly(lo, hi, need0):
            ps = set(F(rng.randint(lo * 4, hi * 4), 4) for _ in range(rng.randint(0, 4)))
            if need0:
                ps.add(F(0))
            return [(p, F(rng.choice([-3, -2, -1, 1, 2, 3]), rng.choice([1, 1, 2, 4]))) for p in sorted(ps, key=lambda _: rng.random())]
        fn = fpoly(rng.choice([0, 0, -5]), 8, False)
        fd = fpoly(0, 5, True)
        neg = any(p < 0 and p.denominator != 1 for p, _ in fn + fd)
        taps = {}
        for p, c in fd:                      # (from the inputs: a denominator that cancels entirely is no filter)
            lo = p.numerator // p.denominator
            for j, wgt in ((lo, 1 - (p - lo)), (lo + 1, p - lo)):
                taps[j] = taps.get(j, 0) + c * wgt
        if not any(taps.values()):
            continue

        def key(p):
            return int(p) if p.denominator == 1 and rng.random() < 0.8 else float(p)
        cls = rng.choice([al.ZFilter, al.lazy_filters.LinearFilter])
        info = {"num": [[str(p), str(c)] for p, c in fn], "den": [[str(p), str(c)] for p, c in fd], "class": cls.__name__,
                "negative_fractional": neg}
        try:
            g = cls({key(p): pynum(c) for p, c in fn}, {key(p): pynum(c) for p, c in fd}).linearize()
            on, od = obs_poly(g.numpoly), obs_poly(g.denpoly)
        except Exception as ex:
            ctx.count(1)
            ctx.violation("X02:linearize-raises", dict(info, raised="%s: %s" % (type(ex).__name__, str(ex)[:160])))
            continue
        recs.append({"op": "lin", "n": [[rat(p), rat(c)] for p, c in fn], "d": [[rat(p), rat(c)] for p, c in fd],
                     "on": pairs(on), "od": pairs(od)})
        meta.append(dict(info, observed=[{str(k): str(v) for k, v in on.items()}, {str(k): str(v) for k, v in od.items()}]))
        ctx.count(1, nontrivial_key=("m3", len(recs)))


# ---------------------------------------------------------------------------------------------------
# designed filters, comb.tau
def m3_design(ctx, al, rng, count, recs, meta):
    import math
    for _ in range(count):
        fam = rng.choice(["lowpass", "highpass", "resonator"])
        params = ("freq", "bandwidth") if fam == "resonator" else ("cutoff",)
        name = rng.choice(["poles_exp", "freq_poles_exp", "z_exp", "freq_z_exp"] if fam == "resonator" else ["pole", "z", "pole_exp", "z_exp"])
        S = [p for p in params if rng.random() < 0.6]
        inlen = rng.randint(0, 9)
        lens, srcs, args = [], {}, []
        for p in params:
            def val():
                if p == "bandwidth":
                    return rng.uniform(0.01, 0.6)
                v = rng.uniform(0.05, math.pi - 0.05)
                return v if abs(v - math.pi / 2) > 0.02 else v + 0.1
            if p in S:
                ln = INF if rng.random() < 0.4 else rng.randint(0, 10)
                vals = [val() for _ in range(8 if ln >= INF else ln)]
                srcs[p] = Source(cycle=vals) if ln >= INF else Source(vals)
                args.append(al.Stream(srcs[p]))
                lens.append(ln)
            else:
                args.append(val())
                lens.append(INF)
        info = {"design": "%s.%s" % (fam, name), "streams": S, "input_length": inlen, "stream_lengths": lens}
        try:
            sd = getattr(al, fam)
            f = (sd[name] if rng.random() < 0.5 else getattr(sd, name))(*args)
            nk = {k: isinstance(v, al.Stream) for k, v in f.numpoly.terms()}
            dk = {k: isinstance(v, al.Stream) for k, v in f.denpoly.terms()}
            reads0 = [srcs[p].n if p in srcs else 0 for p in params]
            out = list(f([rng.uniform(-1, 1) for _ in range(inlen)], zero=0.))
            rec = {"op": "design", "fam": fam, "name": name, "S": S, "inlen": inlen, "lens": lens,
                   "num": sorted(nk), "den": sorted(dk), "numS": sorted(k for k in nk if nk[k]), "denS": sorted(k for k in dk if dk[k]),
                   "den0one": bool(not isinstance(f.denpoly[0], al.Stream) and f.denpoly[0] == 1 and isinstance(f, al.ZFilter)),
                   "nout": len(out), "reads0": reads0, "reads": [srcs[p].n if p in srcs else 0 for p in params]}
        except Exception as ex:
            ctx.count(1)
            ctx.violation("X02:design-raises", dict(info, raised="%s: %s" % (type(ex).__name__, str(ex)[:160])))
            continue
        if not all(isinstance(k, int) for k in rec["num"] + rec["den"]):
            ctx.count(1)
            ctx.violation("X02:design-shape", dict(info, why="non-integer power", observed=[rec["num"], rec["den"]]))
            continue
        recs.append(rec)
        meta.append(dict(info, outputs=rec["nout"], reads=rec["reads"]))
        ctx.count(1, nontrivial_key=("m3", len(recs)))


def m3_tau(ctx, al, rng, count, recs, meta):
    import math
    names = [n for n in al.comb.keys() if "tau" in n][0]
    for _ in range(count):
        delay = rng.randint(1, 9)
        tau = rng.choice([rng.uniform(0.3, 80.), float(rng.randint(1, 40)), rng.randint(1, 40)])
        alias = rng.choice(names)
        info = {"alias": alias, "delay": delay, "tau": repr(tau)}
        try:
            f = al.comb[alias](delay, tau) if rng.random() < 0.5 else al.comb[alias](delay, tau=tau)
            nd, dd = dict(f.numpoly.terms()), dict(f.denpoly.terms())
            want = -(math.e ** (-delay / tau))               # the docstring's formula, evaluated by the same libm
            rec = {"op": "tau", "delay": delay, "nump": sorted(nd), "denp": sorted(dd), "one": float(1).hex(),
                   "num0": float(nd.get(0, 0)).hex(), "den0": float(dd.get(0, 0)).hex(), "dend": float(dd.get(delay, 0)).hex(),
                   "want": float(want).hex()}
        except Exception as ex:
            ctx.count(1)
            ctx.violation("X02:comb-tau-raises", dict(info, raised="%s: %s" % (type(ex).__name__, str(ex)[:160])))
            continue
        recs.append(rec)
        meta.append(dict(info, den=repr(dd)))
        ctx.count(1, nontrivial_key=("m3", len(recs)))


# ---------------------------------------------------------------------------------------------------
DIAG = ("model-structure",)


def key_of(rec, mi, clause):
    op = rec["op"]
    if op == "comb":
        if clause == "exception":
            return "X02:comb-%s-refusal" % rec["form"]
        return "X02:comb-%s-%s" % (rec["form"], mi["cls"])
    if op == "hist":
        return {"constructor": "X02:list-build", "event": "X02:list-history", "is_linear": "X02:pred-linear", "is_lti": "X02:pred-lti",
                "is_causal": "X02:pred-causal", "call-refusal": "X02:call-refusal", "call-reads": "X02:call-reads"}.get(
                    clause, "X02:call-%s" % ("cascade" if rec["obs"] and rec["obs"][-1]["box"]["cls"] == "C" else "parallel"))
    if op == "zf":
        return "X02:zf-%s" % clause
    if op == "lin":
        return "X02:linearize-negative-fractional" if mi["negative_fractional"] and clause != "model" else "X02:linearize-value"
    if op == "design":
        return {"numerator-powers": "X02:design-shape", "denominator-powers": "X02:design-shape", "a0-is-one": "X02:design-shape",
                "stream-coefficients": "X02:design-shape", "reads-at-construction": "X02:design-reads-at-construction",
                "length": "X02:design-length", "reads": "X02:design-reads"}.get(clause, "X02:design-%s" % clause)
    return "X02:comb-tau-%s" % clause


def m3(ctx, al, scale=1):
    rng = ctx.rng
    recs, meta = [], []
    m3_comb(ctx, al, rng, 120 * scale, recs, meta)
    ncomb = len(recs)
    m3_hist(ctx, al, rng, 60 * scale, recs, meta)
    m3_zf(ctx, al, rng, 50 * scale, recs, meta)
    m3_lin(ctx, al, rng, 50 * scale, recs, meta)
    m3_design(ctx, al, rng, 60 * scale, recs, meta)
    m3_tau(ctx, al, rng, 20 * scale, recs, meta)
    bad = tracecheck.run_records(ctx, "FilterStructTrace", {"MaxLen": MAXLEN, "MaxMem": MAXMEM, "Cases": "{}"}, recs,
                                 what="X02 recorded observations", chunk=250)
    hard, ndiag = {}, 0
    for i, c in bad.items():
        if c[0] in DIAG:
            ndiag += 1
            if ndiag <= 2:
                ctx.log("diagnostic (not a violation): record %s differs from the model on %s" % (meta[i - 1], c[0]))
        else:
            hard[i] = c
    ctx.traces += len(recs) - len(hard)
    kinds = {}
    for r in recs:
        kinds[r["op"]] = kinds.get(r["op"], 0) + 1
    ctx.log("M3: %d recorded observations %s judged by TLC, %d rejected, %d diagnostics" % (len(recs), kinds, len(hard), ndiag))
    if meta:
        ctx.sample({"recorded": meta[0]})
        ctx.sample({"recorded": meta[min(ncomb, len(meta) - 1)]})
    for i, c in sorted(hard.items()):
        ctx.violation(key_of(recs[i - 1], meta[i - 1], c[0]), dict(meta[i - 1], clause=c[0]))
