"""C18 - PCM byte codecs are exact: chunk packing and WAV sample decoding.

M1  TLC: spec/io/Codec.tla on the CodecC18 grids: the array fill loop yields what blocks+Struct.pack
    yields, chunks unpack to the sequence followed by pads (two's complement by floor division against the
    positional definition), the WavStream unpackers (zero-prefix + shift for 24 bit) compute the stored
    integer, normalised samples lie in [-1, 1), the header is mirrored, the file is closed exactly when the
    reader runs out (safety + liveness under fairness).
M2  spec -> code: every state TLC reached is replayed.  chunk states: the real chunks.struct / chunks.array
    are run on the case and their first Len(out) byte strings compared with the bytes TLC exported (f/d:
    unpacked with stdlib struct and compared with the exported values).  wav states: the case's bytes are
    written with stdlib wave into the scratch directory, a real WavStream is pulled sample by sample and
    after Len(out) samples its values, rate/channels/bits and the open/closed state of the file are compared
    with the state.
M3  code -> spec: random sequences (length <= 200, sizes up to 300, full value range) and random WAV files
    (<= 200 samples, all widths, mono/stereo, random rates) are run through the real code; the records are
    judged by TLC (spec/trace/CodecTrace.tla).
"""
import os
import struct
import sys
import wave
from fractions import Fraction

import common
import tlaval
import tlc
import tracecheck

WIDTH = {"b": 1, "h": 2, "i": 4, "f": 4, "d": 8}
INTS = ("b", "h", "i")
RANGE = {"b": (-128, 127), "h": (-32768, 32767), "i": (-2 ** 31, 2 ** 31 - 1)}
FLOAT_DEN = 4                     # a float-format token k stands for k / 4
INEXACT = 2 ** 31 - 1             # logged for an unpacked float that is not a token (tokens are |k| <= 4000)
NATIVE = "<" if sys.byteorder == "little" else ">"


def val(fmt, k):
    return k if fmt in INTS else k / float(FLOAT_DEN)


def eff(order):
    return NATIVE if order in ("none", None) else order


def run_strategy(fn, fmt, order, size, seq, pad, variant, default_pad=False):
    """Returns (exception name or 'none', [bytes, ...]).  default_pad: the pad value is left at its default (only
    used where no padding is needed, so that the default's type cannot matter)."""
    vals = [val(fmt, k) for k in seq]
    src = vals if variant % 3 == 0 else (iter(vals) if variant % 3 == 1 else (v for v in vals))
    bo = None if order == "none" else order
    try:
        if default_pad:
            gen = fn(src, size, fmt, bo) if variant % 2 else fn(src, size=size, dfmt=fmt, byte_order=bo)
        elif variant % 2:
            gen = fn(src, size, fmt, bo, val(fmt, pad))
        else:
            gen = fn(src, size=size, dfmt=fmt, byte_order=bo, padval=val(fmt, pad))
        res = list(gen)
    except Exception as ex:
        return type(ex).__name__, [], str(ex)
    if not all(isinstance(c, bytes) for c in res):
        return "not-bytes", [], repr(res)[:200]
    return "none", res, ""


def unpack_tokens(fmt, order, chunk_bytes):
    """stdlib round trip for the float formats: bytes -> value tokens (None where not a token)."""
    n = len(chunk_bytes) // WIDTH[fmt]
    vals = struct.unpack("%s%d%s" % (eff(order), n, fmt), chunk_bytes)
    out = []
    for v in vals:
        t = v * FLOAT_DEN
        out.append(int(t) if abs(t) < 2 ** 30 and t == int(t) else None)      # (nan / inf: None)
    return out


def array_key(al, case, err, got, struct_native):
    if err != "none":
        return "C18:chunks.array-raises-%s" % err
    if case["order"] != "none" and eff(case["order"]) != NATIVE and got == struct_native:
        return "C18:chunks.array-ignores-byte_order"
    return None


def m2(ctx, al, module, cfg):
    d = tlc.scratch_dir("c18")
    dump = os.path.join(d, "states")
    r = tlc.require_ok(tlc.run(module, cfg, dump=dump), module,
                       need_actions=("Fill", "Tail_", "ReadFrame", "YieldSecond", "Eof"))
    ctx.add_tlc(r, "Codec: array == struct == definition; unpackers == stored integers; close protocol")
    wavdir = tlc.scratch_dir("c18wav")
    cache = {}
    nstates = 0
    nfiles = 0
    seen = set()
    for st in tlaval.read_dump(dump + ".dump"):
        sk = repr(sorted(st.items()))       # with a liveness property TLC writes every state twice
        if sk in seen:
            continue
        seen.add(sk)
        nstates += 1
        case = st["case"]
        if case["kind"] == "chunk":
            key = ("c", case["fmt"], case["order"], case["size"], tuple(case["seq"]), case["pad"])
            if key not in cache:
                v = len(cache)
                cache[key] = {
                    "struct": run_strategy(al.chunks.struct, case["fmt"], case["order"], case["size"], case["seq"],
                                           case["pad"], v),
                    "array": run_strategy(al.chunks.array, case["fmt"], case["order"], case["size"], case["seq"],
                                          case["pad"], v + 1),
                    "native": run_strategy(al.chunks.struct, case["fmt"], "none", case["size"], case["seq"],
                                           case["pad"], v)[1]}
                if len(case["seq"]) % case["size"] == 0:
                    # nothing to pad: the same bytes must come out when the pad value is left at its default
                    for strat in ("struct", "array"):
                        cache[key][strat + "-default-pad"] = run_strategy(
                            getattr(al.chunks, strat), case["fmt"], case["order"], case["size"], case["seq"],
                            case["pad"], v + (strat == "array"), default_pad=True)
            obs = cache[key]
            exp = st["out"]
            done = st["st"] == "done"
            desc = {"dfmt": case["fmt"], "byte_order": None if case["order"] == "none" else case["order"],
                    "size": case["size"], "seq": [val(case["fmt"], k) for k in case["seq"]],
                    "padval": val(case["fmt"], case["pad"])}
            for strat in ("struct", "array", "struct-default-pad", "array-default-pad"):
                if strat not in obs:
                    continue
                err, got, msg = obs[strat]
                ctx.count(1, nontrivial_key=key if len(case["seq"]) > case["size"] else None)
                if err != "none":
                    k = array_key(al, case, err, got, obs["native"]) if strat == "array" else "C18:chunks.%s-raises-%s" % (strat, err)
                    ctx.violation(k, dict(desc, call="chunks.%s" % strat, observed="%s: %s" % (err, msg)))
                    continue
                ok = len(got) >= len(exp) and (not done or len(got) == len(exp))
                if ok:
                    for e, g in zip(exp, got):
                        if case["fmt"] in INTS:
                            ok = ok and list(g) == list(e["bytes"])
                        else:
                            ok = ok and len(g) == case["size"] * WIDTH[case["fmt"]] and \
                                unpack_tokens(case["fmt"], case["order"], g) == list(e["vals"])
                if not ok:
                    k = (array_key(al, case, err, got, obs["native"]) if strat == "array" else None) or \
                        "C18:chunks.%s-%s" % (strat, "count" if len(got) != len(exp) and done else "bytes")
                    ctx.violation(k, dict(desc, call="chunks.%s" % strat, state="pos=%d %s" % (st["pos"], st["st"]),
                                          expected=[list(e["bytes"]) or list(e["vals"]) for e in exp],
                                          observed=[list(g) for g in got]))
            if done and obs["struct"][0] == "none" and obs["array"][0] == "none" and obs["struct"][1] != obs["array"][1]:
                k = array_key(al, case, "none", obs["array"][1], obs["native"]) or "C18:chunks.strategies-differ"
                ctx.violation(k, dict(desc, struct=[list(g) for g in obs["struct"][1]],
                                      array=[list(g) for g in obs["array"][1]]))
            if nstates % 3001 == 0 and done:
                ctx.sample(dict(desc, chunks=[g.hex() for g in obs["struct"][1]]))
        else:
            key = ("w", case["bits"], case["ch"], case["keep"], case["rate"], tuple(case["data"]))
            if key not in cache:
                nfiles += 1
                cache[key] = observe_wav(al, wavdir, nfiles, case["bits"], case["ch"], case["keep"], case["rate"],
                                         bytes(case["data"]), len(cache))
            obs = cache[key]
            n = len(st["out"])
            desc = {"bits": case["bits"], "channels": case["ch"], "keep": case["keep"], "rate": case["rate"],
                    "data": bytes(case["data"]).hex()}
            wk = "C18:wav%d" % case["bits"]
            ctx.count(1, nontrivial_key=key if len(case["data"]) > case["bits"] // 8 else None)
            if obs["err"]:
                ctx.violation(wk + "-raises", dict(desc, observed=obs["err"]))
                continue
            h = st["hdr"]
            if (obs["rate"], obs["channels"], obs["bits"]) != (h["rate"], h["channels"], h["bits"]):
                ctx.violation("C18:wav-header", dict(desc, observed=[obs["rate"], obs["channels"], obs["bits"]]))
            exp = st["out"]
            got = obs["vals"][:n]
            if len(got) != n or (st["st"] == "closed" and len(obs["vals"]) != n) or \
                    not all(same_sample(case, e, g) for e, g in zip(exp, got)):
                ctx.violation(wk + ("-keep" if case["keep"] else "-norm"),
                              dict(desc, expected=[e if case["keep"] else "%d/2**%d" % (e[0], e[1] - 1) for e in exp],
                                   observed=[repr(g) for g in obs["vals"][:n + 1]]))
            # open/closed state after n pulls (index n of the flags; the last flag is "after exhaustion")
            if st["st"] == "open" and not obs["open"][n]:
                # C18 promises the file is closed ONCE THE STREAM IS EXHAUSTED - a bound on how long it may stay
                # open, not on how early a reader that has everything in memory may close it (the samples above
                # are what has to be right): diagnostics
                ctx.extra["notes"] = ctx.extra.get("notes", 0) + 1
                if ctx.extra["notes"] <= 2:
                    ctx.log("note (not demanded by C18): file already closed after %d of its samples" % n)
            if st["st"] == "closed" and obs["open"][-1]:
                ctx.violation("C18:wav-not-closed", dict(desc, after_samples=n))
            if nstates % 2999 == 0:
                ctx.sample(dict(desc, yielded=[repr(g) for g in obs["vals"]]))
    if nstates != r.distinct:
        raise tlc.MachineryError("dump has %d states, TLC reported %d" % (nstates, r.distinct))
    ctx.traces += nstates
    ctx.log("M2: %d spec states replayed (%d WAV files written)" % (nstates, nfiles))


def same_sample(case, e, g):
    if case["keep"]:
        return type(g) is int and g == e
    return isinstance(g, float) and Fraction(g) == Fraction(e[0], 2 ** (e[1] - 1))


def fd_open(path):
    """Is a descriptor of this process open on the file?"""
    n = 0
    for fd in os.listdir("/proc/self/fd"):
        try:
            if os.readlink("/proc/self/fd/" + fd) == path:
                n += 1
        except OSError:
            pass
    return n > 0


def observe_wav(al, wavdir, num, bits, ch, keep, rate, data, variant):
    path = os.path.join(os.path.realpath(wavdir), "f%d.wav" % num)
    w = wave.open(path, "wb")
    w.setnchannels(ch)
    w.setsampwidth(bits // 8)
    w.setframerate(rate)
    w.writeframes(data)
    w.close()
    obs = {"err": None, "vals": [], "open": []}
    try:
        if keep:
            ws = al.WavStream(path, True) if variant % 2 else al.WavStream(path, keep=True)
        else:
            ws = al.WavStream(path) if variant % 2 else al.WavStream(path, keep=False)
        obs["rate"], obs["channels"], obs["bits"] = ws.rate, ws.channels, ws.bits
        obs["open"].append(fd_open(path))            # after construction, nothing pulled
        it = iter(ws)
        while True:
            try:
                v = next(it)
            except StopIteration:
                break
            obs["vals"].append(v)
            obs["open"].append(fd_open(path))        # after len(vals) pulls
            if len(obs["vals"]) > len(data) + 2:
                obs["err"] = "more samples than bytes"
                break
        obs["open"].append(fd_open(path))            # after exhaustion
    except Exception as ex:
        obs["err"] = repr(ex)
    os.unlink(path)
    return obs


# ---------------------------------------------------------------------------------------------------
def rand_value(rng, fmt):
    if fmt in INTS:
        lo, hi = RANGE[fmt]
        r = rng.random()
        if r < .25:
            return rng.choice([lo, lo + 1, -1, 0, 1, hi - 1, hi, hi // 2, lo // 2, 255, 256, -256, 127, 128, -129])\
                if fmt != "b" else rng.choice([lo, lo + 1, -1, 0, 1, hi - 1, hi])
        return rng.randint(lo, hi)
    return rng.randint(-4000, 4000)


def m3_chunks(ctx, al, count):
    rng = ctx.rng
    recs, meta = [], []
    for i in range(count):
        fmt = rng.choice(["b", "h", "i", "i", "f", "d"])
        order = rng.choice(["none", "<", ">"])
        size = rng.randint(1, 24) if rng.random() < .85 else rng.randint(25, 300)
        n = rng.randint(0, 200)
        if rng.random() < .2:
            n = size * rng.randint(0, max(1, 200 // size))        # exact multiples (no padding)
        seq = [rand_value(rng, fmt) for _ in range(n)]
        pad = rand_value(rng, fmt)
        s = run_strategy(al.chunks.struct, fmt, order, size, seq, pad, i)
        a = run_strategy(al.chunks.array, fmt, order, size, seq, pad, i + 1)
        native = run_strategy(al.chunks.struct, fmt, "none", size, seq, pad, i)[1]
        rec = {"kind": "chunk", "fmt": fmt, "order": order, "size": size, "seq": seq, "pad": pad,
               "serr": s[0], "struct": [list(c) for c in s[1]], "aerr": a[0], "array": [list(c) for c in a[1]],
               "sunpacked": [], "aunpacked": []}
        if fmt not in INTS:
            for k, res in (("sunpacked", s), ("aunpacked", a)):
                if res[0] == "none" and all(len(c) % WIDTH[fmt] == 0 for c in res[1]):
                    toks = unpack_tokens(fmt, order, b"".join(res[1]))
                    rec[k] = [t if t is not None else INEXACT for t in toks]
        recs.append(rec)
        meta.append({"dfmt": fmt, "byte_order": None if order == "none" else order, "size": size,
                     "len(seq)": n, "seq[:8]": [val(fmt, k) for k in seq[:8]], "padval": val(fmt, pad),
                     "struct_error": s[2], "array_error": a[2], "_a": a, "_native": native,
                     "_case": {"order": order}})
        ctx.count(2, nontrivial_key=("m3c", i) if n > size else None)
    bad = tracecheck.run_records(ctx, "CodecTrace", {"ChunkCases": "{}", "WavCases": "{}", "Native": '"%s"' % NATIVE},
                                 recs, what="C18 recorded chunks", chunk=400)
    ctx.traces += len(recs) - len(bad)
    ctx.log("M3 chunks: %d records judged by TLC, %d rejected" % (len(recs), len(bad)))
    for i, info in sorted(bad.items()):
        m = dict(meta[i - 1])
        a, native, case = m.pop("_a"), m.pop("_native"), m.pop("_case")
        clause = info[0]
        key = "C18:chunks." + clause
        if clause.startswith("array-") or clause == "strategies-differ":
            key = array_key(al, case, a[0], a[1], native) or key
        ctx.violation(key, dict(m, clause=clause, first_chunks={"struct": recs[i - 1]["struct"][:2],
                                                               "array": recs[i - 1]["array"][:2]}))
    if meta:
        m = {k: v for k, v in meta[0].items() if not k.startswith("_")}
        ctx.sample({"recorded_chunks": m})


EXTREME = {8: [b"\x00", b"\x01", b"\x7f", b"\x80", b"\xff"],
           16: [b"\x00\x80", b"\x01\x80", b"\xff\xff", b"\x00\x00", b"\x01\x00", b"\xfe\x7f", b"\xff\x7f", b"\xff\x00"],
           24: [b"\x00\x00\x80", b"\x01\x00\x80", b"\xff\xff\xff", b"\x00\x00\x00", b"\x01\x00\x00", b"\xfe\xff\x7f",
                b"\xff\xff\x7f", b"\x00\x80\x00", b"\xff\x7f\x00", b"\x00\x00\xff"],
           32: [b"\x00\x00\x00\x80", b"\x01\x00\x00\x80", b"\xff\xff\xff\xff", b"\x00\x00\x00\x00", b"\x01\x00\x00\x00",
                b"\xfe\xff\xff\x7f", b"\xff\xff\xff\x7f", b"\x00\x00\x80\x00", b"\xff\xff\x7f\x00", b"\x00\xff\x00\xff"]}


def m3_wav(ctx, al, count):
    rng = ctx.rng
    wavdir = tlc.scratch_dir("c18wav3")
    recs, meta = [], []
    for i in range(count):
        bits = rng.choice([8, 16, 24, 32])
        ch = rng.choice([1, 2])
        keep = rng.random() < .5
        rate = rng.choice([8000, 11025, 44100, 48000, 96000, rng.randint(1, 2 ** 29 - 1)])   # byte rate = rate*ch*width is a 32-bit header field
        nframes = rng.randint(0, 200 // ch)
        if i % 50 == 7:
            # long files: the length of a file is not bounded by any internal buffer (1024, 2048, 4096 frames ...)
            nframes = rng.choice([1023, 1024, 1025, 1500, 2049, 2600, 4097])
            ch = 2 if i % 100 == 7 else ch
        w = bits // 8
        data = b"".join(rng.choice(EXTREME[bits]) if rng.random() < .2 else bytes(rng.randrange(256) for _ in range(w))
                        for _ in range(nframes * ch))
        obs = observe_wav(al, wavdir, i, bits, ch, keep, rate, data, i)
        info = {"bits": bits, "channels": ch, "keep": keep, "rate": rate, "samples": nframes * ch,
                "data[:12]": data[:12].hex()}
        if obs["err"]:
            ctx.violation("C18:wav%d-raises" % bits, dict(info, observed=obs["err"]))
            continue
        exact = True
        out = []
        for v in obs["vals"]:
            if keep:
                if type(v) is int and -2 ** 31 <= v < 2 ** 31:
                    out.append(v)
                else:
                    exact = False
                    out.append(0)
            else:
                num = Fraction(v) * 2 ** (bits - 1) if isinstance(v, float) else None
                if num is not None and num.denominator == 1 and abs(num) < 2 ** 31 + 1 and num != 2 ** 31:
                    out.append(int(num))
                else:
                    exact = False
                    out.append(0)
        n = len(obs["vals"])
        recs.append({"kind": "wav", "bits": bits, "ch": ch, "keep": keep, "rate": rate, "data": list(data),
                     "hdr": [obs["rate"], obs["channels"], obs["bits"]], "out": out, "exact": exact,
                     "open_mid": all(obs["open"][:n + 1]), "closed_end": not obs["open"][-1]})
        meta.append(dict(info, yielded=[repr(v) for v in obs["vals"][:6]]))
        ctx.count(1, nontrivial_key=("m3w", i) if n >= 2 else None)
    bad = tracecheck.run_records(ctx, "CodecTrace", {"ChunkCases": "{}", "WavCases": "{}", "Native": '"%s"' % NATIVE},
                                 recs, what="C18 recorded WAV streams", chunk=400)
    ctx.traces += len(recs) - len(bad)
    ctx.log("M3 wav: %d records judged by TLC, %d rejected" % (len(recs), len(bad)))
    for i, info in sorted(bad.items()):
        m = meta[i - 1]
        clause = info[0]
        if clause in ("value", "type", "length", "range"):
            key = "C18:wav%d-%s" % (m["bits"], "keep" if m["keep"] else "norm")
        elif clause == "header":
            key = "C18:wav-header"
        else:
            key = "C18:wav-" + clause
        ctx.violation(key, dict(m, clause=clause))
    if meta:
        ctx.sample({"recorded_wav": meta[0]})


def check(ctx):
    al = common.import_audiolazy()
    if not os.path.isdir("/proc/self/fd"):
        raise tlc.MachineryError("needs /proc/self/fd to observe whether the WAV file is open")
    ctx.rule = ("M2: every state of the TLC run replayed on chunks.struct, chunks.array and WavStream; non-trivial = "
                "more than one chunk / more than one sample; M3: one record per random sequence or file")
    ctx.assumptions = [
        "values and pad value are of the format's type and inside its range (Struct.pack / array refuse others)",
        "byte_order is None, '<' or '>'; None means the machine's order (%s here, read from sys.byteorder)" % NATIVE,
        "f/d: values are multiples of 1/4 below 2^10; the IEEE bit patterns are decided by the round trip "
        "through stdlib struct only, the placement of the values and the pads by the specification",
        "WAV files are written by stdlib wave (whole frames, PCM); 'closed' is observed as: no descriptor of the "
        "process is open on the file (/proc/self/fd)"]
    if ctx.thorough:
        m2(ctx, al, "CodecC18T", "CodecC18T_thorough.cfg")
        m3_chunks(ctx, al, 3000)
        m3_wav(ctx, al, 2000)
    else:
        m2(ctx, al, "CodecC18", "CodecC18_quick.cfg")
        m3_chunks(ctx, al, 300)
        m3_wav(ctx, al, 300)
    ctx.exhaustive = True
