"""Code -> spec: hand recorded traces / observation records to TLC and collect its verdicts.

Two shapes are supported by the trace modules under spec/trace:
  * stateful traces   : {"traces": [{"events": [...], ...}, ...]}; TLC prints <<"ACCEPT", tid>> when a
                        trace was consumed to its end and <<"REJECT", tid, l, clause>> at the first event
                        no spec action explains (clause = name of the first failing conjunct);
  * observation records: {"recs": [...]}; one initial state per record, TLC prints
                        <<"REJECT", i, clause>> for a record the specification's value disagrees with
                        and <<"OK", n>> markers are not needed (count = number of initial states).
"""
import json
import os

import tlc


def write_cfg(path, constants, init, next_, invariants=(), view=None, constraint=None, extra=""):
    with open(path, "w") as fh:
        if constants:
            fh.write("CONSTANTS\n")
            for k, v in constants.items():
                if isinstance(v, str) and v.startswith("<-"):
                    fh.write("  %s <- %s\n" % (k, v[2:].strip()))      # substitution by a definition
                else:
                    fh.write("  %s = %s\n" % (k, v))
        fh.write("INIT %s\nNEXT %s\n" % (init, next_))
        if view:
            fh.write("VIEW %s\n" % view)
        if constraint:
            fh.write("CONSTRAINT %s\n" % constraint)
        for inv in invariants:
            fh.write("INVARIANT %s\n" % inv)
        fh.write("CHECK_DEADLOCK FALSE\n")
        fh.write(extra)


def run_traces(ctx, module, constants, traces, init="TInit", next_="TNext",
               invariants=("Accepted",), what="trace validation", timeout=1800, workers=16,
               extra_data=None, heap="4g", pick="min", dfs=False):
    """Returns (accepted tids, {tid: (l, clause)} rejected).  tids are 1-based."""
    d = tlc.scratch_dir("trace")
    data = {"traces": traces}
    if extra_data:
        data.update(extra_data)
    tf = os.path.join(d, "trace.json")
    with open(tf, "w") as fh:
        json.dump(data, fh)
    cfg = os.path.join(d, "trace.cfg")
    write_cfg(cfg, constants, init, next_, invariants)
    r = tlc.run(module, cfg, env={"TRACE_FILE": tf}, workers=workers, coverage=False, timeout=timeout,
                heap=heap, dfs=dfs)
    if not r.ok:
        raise tlc.MachineryError("%s: TLC failed rc=%s violated=%s\n%s" %
                                 (what, r.rc, r.violated, "\n".join(r.out.splitlines()[-40:])))
    ctx.add_tlc(r, what)
    accepted, rejected = set(), {}
    for p in r.prints:
        if isinstance(p, tuple) and p and p[0] == "ACCEPT":
            accepted.add(p[1])
        elif isinstance(p, tuple) and p and p[0] == "REJECT":
            tid = p[1]
            if tid not in rejected or (p[2] < rejected[tid][0] if pick == "min" else p[2] > rejected[tid][0]):
                rejected[tid] = (p[2], p[3] if len(p) > 3 else "?") + tuple(p[4:])
    for tid in range(1, len(traces) + 1):
        if tid not in accepted and tid not in rejected:
            rejected[tid] = (0, "no-verdict")
    for tid in list(rejected):
        if tid in accepted:
            # a trace both accepted and rejected means the spec branched; accepted wins
            del rejected[tid]
    return accepted, rejected


def run_records(ctx, module, constants, recs, init="RInit", next_="RNext", invariants=("Judge",),
                what="record validation", timeout=1800, workers=16, extra_data=None, heap="4g",
                chunk=None):
    """One initial state per record; returns {index(1-based): (clause, ...)} of rejected records."""
    bad = {}
    if chunk and len(recs) > chunk:
        for off in range(0, len(recs), chunk):
            sub = run_records(ctx, module, constants, recs[off:off + chunk], init, next_, invariants,
                              what, timeout, workers, extra_data, heap, None)
            for i, v in sub.items():
                bad[i + off] = v
        return bad
    d = tlc.scratch_dir("recs")
    data = {"recs": recs}
    if extra_data:
        data.update(extra_data)
    tf = os.path.join(d, "recs.json")
    with open(tf, "w") as fh:
        json.dump(data, fh)
    cfg = os.path.join(d, "recs.cfg")
    write_cfg(cfg, constants, init, next_, invariants)
    r = tlc.run(module, cfg, env={"TRACE_FILE": tf}, workers=workers, coverage=False, timeout=timeout,
                heap=heap)
    if not r.ok:
        raise tlc.MachineryError("%s: TLC failed rc=%s violated=%s\n%s" %
                                 (what, r.rc, r.violated, "\n".join(r.out.splitlines()[-40:])))
    if r.distinct < len(recs):
        # identical records collapse into one state; that is fine, but zero states is not
        if r.distinct == 0:
            raise tlc.MachineryError("%s: TLC evaluated no record" % what)
    ctx.add_tlc(r, what)
    for p in r.prints:
        if isinstance(p, tuple) and p and p[0] == "REJECT":
            bad[p[1]] = tuple(p[2:])
    return bad
