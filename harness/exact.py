"""Exact values shared by the drivers: linear forms ("a sample standing for every number"),
rationals <-> spec encoding, symbolic terms."""
from fractions import Fraction
import numbers


def frac(x):
    if isinstance(x, Fraction):
        return x
    if isinstance(x, bool):
        raise TypeError("bool is not a sample")
    if isinstance(x, int):
        return Fraction(x)
    if isinstance(x, float):
        return Fraction(x)          # exact
    raise TypeError("not a scalar: %r" % (x,))


def is_scalar(x):
    return isinstance(x, (int, float, Fraction)) and not isinstance(x, bool)


def rat(x):
    """Fraction -> spec encoding [n, d] (JSON) ; accepts ints/floats (exact)."""
    f = frac(x)
    return [f.numerator, f.denominator]


def unrat(p):
    return Fraction(p[0], p[1])


def fits(x, bits=30):
    f = frac(x)
    return abs(f.numerator) < (1 << bits) and f.denominator < (1 << bits)


class LinForm(object):
    """Linear form sum_i c_i * sym_i with Fraction coefficients; closed under + - and scalar * /."""
    __slots__ = ("c",)

    def __init__(self, c=None):
        self.c = {k: v for k, v in (c or {}).items() if v != 0}

    @classmethod
    def sym(cls, i):
        return cls({i: Fraction(1)})

    def _bin(self, other, sign):
        if is_scalar(other):
            if other == 0:
                return LinForm(self.c) if sign == 1 else LinForm(self.c)
            return NotImplemented
        if not isinstance(other, LinForm):
            return NotImplemented
        c = dict(self.c)
        for k, v in other.c.items():
            c[k] = c.get(k, 0) + sign * v
        return LinForm(c)

    def __add__(self, o):
        return self._bin(o, 1)

    def __radd__(self, o):
        if is_scalar(o) and o == 0:
            return LinForm(self.c)
        return NotImplemented

    def __sub__(self, o):
        return self._bin(o, -1)

    def __rsub__(self, o):
        if is_scalar(o) and o == 0:
            return -self
        return NotImplemented

    def __neg__(self):
        return LinForm({k: -v for k, v in self.c.items()})

    def __pos__(self):
        return LinForm(self.c)

    def __mul__(self, o):
        if not is_scalar(o):
            return NotImplemented
        f = frac(o)
        return LinForm({k: v * f for k, v in self.c.items()})

    __rmul__ = __mul__

    def __truediv__(self, o):
        if not is_scalar(o):
            return NotImplemented
        f = frac(o)
        return LinForm({k: v / f for k, v in self.c.items()})

    def __eq__(self, o):
        if is_scalar(o):
            return not self.c and o == 0 or False
        return isinstance(o, LinForm) and self.c == o.c

    def __ne__(self, o):
        return not self.__eq__(o)

    def __hash__(self):
        return hash(frozenset(self.c.items()))

    def __abs__(self):
        raise TypeError("abs of a linear form")

    def vec(self, ns):
        """Spec encoding: list of ns rationals (symbols are 1..ns)."""
        if any(k < 1 or k > ns for k in self.c):
            raise ValueError("symbol out of range")
        return [rat(self.c.get(i, 0)) for i in range(1, ns + 1)]

    def maxbits(self):
        m = 0
        for v in self.c.values():
            m = max(m, abs(v.numerator).bit_length(), v.denominator.bit_length())
        return m

    def __repr__(self):
        if not self.c:
            return "L(0)"
        return "L(" + " + ".join("%s*s%d" % (v, k) for k, v in sorted(self.c.items())) + ")"


def lin_vec(x, ns):
    """Encode an observed sample (LinForm or exact scalar zero) as a spec linear form; None if not exact."""
    if isinstance(x, LinForm):
        return x.vec(ns)
    if is_scalar(x) and x == 0:
        return [[0, 1]] * ns
    return None


def vec_to_lin(v):
    """Spec linear form (tuple of <<n,d>>) -> LinForm."""
    return LinForm({i + 1: Fraction(p[0], p[1]) for i, p in enumerate(v) if p[0] != 0})
