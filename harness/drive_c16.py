"""C16 - the mixer starts each event at its cumulative time and sums what plays; ControlStream.

M1  TLC on spec/stream/Mixer.tla:
      * graph configurations: full reachable state graph of the count/queue machine together with the
        definition's event table in the frame of `now` (histories of ANY length; bounds: live events,
        delta / length pools, how far `count` may run ahead); invariants OutIsPlaying, Refines,
        StartTimes, CountTracksBase, NoDrift, ClosedForm, Termination, NegativeDeltaRejected;
      * history configuration: the absolute history (evs, now) is part of the state, no VIEW: the
        closed form is compared with the machine on EVERY history within MaxEv events / MaxN samples;
      * ControlStream machine.
M2  spec -> code: every transition of the graphs is executed by a real Streamix from the state the model
    says it is enabled in (BFS path to its source, the rejected add()s of the source, the transition,
    then a few more next() along the model's own Step/Stop edges); every return value is compared with
    what TLC exported (`out` of the successor state, the action name).  A replay that differs from the
    operational layer is handed to TLC (MixerTrace): it is a violation only if the closed form with both
    tie directions rejects it.
M3  code -> spec: seeded random histories (up to 40 events, hundreds in the drift runs, late additions,
    negative deltas, keep on/off, several zero values, Q = 4 / 10 / 3 / 16 ticks per sample) recorded from
    the real code and judged by TLC through spec/trace/MixerTrace.tla.
"""
import json
import os
from fractions import Fraction

import common
import graphcover
import tlaval
import tlc
import tracecheck
from exact import LinForm

MAX_ADJUDICATE = 12000   # differing replays judged by TLC: the first 3000 and every 25th after them


def safe_repr(x):
    try:
        return repr(x)[:200]
    except Exception:
        return "<%s>" % type(x).__name__


# ------------------------------------------------------------------------------------------------
# the real object, observed through its public API only
class Session(object):
    """One Streamix under observation.  Items are symbolic: `lin` = LinForm symbols (zero is a symbol too),
    `num` = distinct powers of two (zero is the number 1, 1.0, or the default 0.0)."""

    def __init__(self, al, keep, Q, enc="lin", zero="sym", variant=0):
        self.al, self.Q, self.enc, self.variant = al, Q, enc, variant
        self.variant0 = variant
        self.keep = keep
        self.nev = 0                 # events accepted so far (global index of the last one)
        self.att = 0                 # add() attempts; items are named by attempt, gi_of: attempt -> index
        self.gi_of = {}
        self.events = []             # the recorded trace
        self.inputs = []
        self.zero_name = zero
        if enc == "lin":
            self.zero = LinForm({"Z": Fraction(1)})
            self.smix = al.Streamix(keep, self.zero) if variant % 2 else al.Streamix(keep=keep, zero=self.zero)
        else:
            self.bits = {}
            self.nbit = 2
            if zero == "default":
                self.zero = 0.0
                self.smix = al.Streamix(keep) if keep else al.Streamix()
            else:
                self.zero = {"int1": 1, "float1": 1.0, "frac1": Fraction(1)}[zero]
                self.smix = al.Streamix(keep=keep, zero=self.zero)

    # ---- inputs ----------------------------------------------------------------------------------
    def _delta(self, d):
        Q, v = self.Q, self.variant
        if d % Q == 0 and v % 3 == 1:
            return d // Q
        if v % 7 == 3:
            return Fraction(d, Q)
        return float(d) / Q

    def _item(self, gi, k):
        if self.enc == "lin":
            return LinForm({(gi, k): Fraction(1)})
        b = self.nbit
        self.nbit += 1
        self.bits[b] = (gi, k)
        return 1 << b

    def _data(self, gi, length):
        items = [self._item(gi, k) for k in range(length)]
        c = (self.variant + gi) % 5
        if c == 0:
            return items
        if c == 1:
            return tuple(items)
        if c == 2:
            return iter(items)
        if c == 3:
            return (x for x in items)
        return self.al.Stream(items)

    def add(self, d, length):
        self.variant += 1
        if self.enc == "num":
            length = max(0, min(length, 50 - self.nbit))      # sums of all items stay exact in a float
        self.inputs.append(["add", d, length])
        self.att += 1
        data = self._data(self.att, length)
        try:
            self.smix.add(self._delta(d), data)
            res = "ok"
            self.nev += 1
            self.gi_of[self.att] = self.nev
        except ValueError:
            res = "ValueError"
        except Exception as ex:                     # anything else is an observation, too
            res = type(ex).__name__
        ev = {"op": "add", "d": d, "len": length, "res": res}
        self.events.append(ev)
        return ev

    # ---- outputs ---------------------------------------------------------------------------------
    def _decode(self, x):
        """-> (zc, [[gi, k, coef], ...]) or None when the sample is not a sum of zero and items."""
        if self.enc == "lin":
            if not isinstance(x, LinForm):
                return None
            zc, items = 0, []
            for key, c in x.c.items():
                if c.denominator != 1:
                    return None
                if key == "Z":
                    zc = int(c)
                elif isinstance(key, tuple):
                    items.append([self.gi_of.get(key[0], 0), key[1], int(c)])
                else:
                    return None
            return zc, sorted(items)
        try:
            f = Fraction(x)
        except (TypeError, ValueError):
            return None
        if f.denominator != 1 or f < 0:
            return None
        v = int(f)
        zc = v & 3
        if self.zero_name == "default":
            zc = -1 if zc == 0 else zc
        items, b = [], 2
        v >>= 2
        while v:
            if v & 1:
                if b not in self.bits:
                    return None
                items.append([self.gi_of.get(self.bits[b][0], 0), self.bits[b][1], 1])
            v >>= 1
            b += 1
        return zc, sorted(items)

    def next(self):
        self.inputs.append(["next"])
        try:
            x = self.smix.take() if (self.variant + len(self.inputs)) % 3 == 0 else next(iter(self.smix))
        except StopIteration:
            ev = {"op": "next", "res": "end"}
        except Exception as ex:
            ev = {"op": "next", "res": type(ex).__name__}
        else:
            dec = self._decode(x)
            if dec is None:
                ev = {"op": "next", "res": "bad-output", "repr": safe_repr(x)}
            else:
                ev = {"op": "next", "res": "out", "zc": dec[0], "items": dec[1]}
        self.events.append(ev)
        return ev

    def trace(self):
        return {"kind": "mix", "keep": bool(self.keep), "events": self.events}

    def describe(self):
        return {"Q": self.Q, "keep": bool(self.keep), "encoding": self.enc, "zero": self.zero_name, "variant": self.variant0,
                "inputs": self.inputs, "observed": self.events}


def trace_constants(Q, maxlive=64):
    return {"Q": str(Q), "Deltas": "{}", "Lens": "{}", "Keeps": "{}", "MaxLive": str(maxlive),
            "MaxCount": "0", "MaxEv": "0", "MaxN": "0", "Values": "{}"}


TRACE_INVS = ("Accepted", "TModel", "TControl")


def judge(ctx, Q, traces, what):
    """TLC judges recorded traces (MixerTrace).  -> (accepted tids, {tid: (l, clause)}, {tid: diagnostic})"""
    d = tlc.scratch_dir("c16t")
    tf = os.path.join(d, "trace.json")
    with open(tf, "w") as fh:
        json.dump({"traces": traces}, fh)
    cfg = os.path.join(d, "trace.cfg")
    tracecheck.write_cfg(cfg, trace_constants(Q), "TInit", "TNext", TRACE_INVS)
    r = tlc.run("MixerTrace", cfg, env={"TRACE_FILE": tf}, coverage=False, timeout=3000)
    if not r.ok:
        raise tlc.MachineryError("%s: TLC failed rc=%s violated=%s errors=%s\n%s" %
                                 (what, r.rc, r.violated, r.errors[:2], "\n".join(
                                     [ln for ln in r.out.splitlines() if "|->" not in ln][-40:])))
    ctx.add_tlc(r, what)
    acc, rej, diag = set(), {}, {}
    for p in r.prints:
        if not (isinstance(p, tuple) and p):
            continue
        if p[0] == "ACCEPT":
            acc.add(p[1])
        elif p[0] == "REJECT" and (p[1] not in rej or p[2] < rej[p[1]][0]):
            rej[p[1]] = (p[2], p[3])
        elif p[0] == "DIAG":
            diag.setdefault(p[1], p[2:])
    for tid in range(1, len(traces) + 1):
        if tid in acc and tid in rej:
            raise tlc.MachineryError("%s: trace %d both accepted and rejected" % (what, tid))
        if tid not in acc and tid not in rej:
            rej[tid] = (0, "no-verdict")
    return acc, rej, diag


# ------------------------------------------------------------------------------------------------
# M1 + M2 on a graph configuration
def replay_graph(ctx, al, cfg, Q, drain, pending):
    d = tlc.scratch_dir("c16")
    dot = os.path.join(d, "g.dot")
    r = tlc.require_ok(tlc.run("Mixer", cfg, dump_dot=dot, timeout=3000), cfg,
                       need_actions=("Add", "AddRejected", "Step", "Stop"))
    ctx.add_tlc(r, "Mixer state graph (%s)" % cfg)
    nodes, inits, edges = tlaval.read_dot(dot)
    os.remove(dot)
    edges = list(dict.fromkeys(edges))          # a transition generated twice is one transition
    if len(nodes) != r.distinct:
        raise tlc.MachineryError("dot dump has %d nodes, TLC reported %d" % (len(nodes), r.distinct))
    parent, order, outmap = graphcover.cover(inits, edges)
    if len(parent) != len(nodes):
        raise tlc.MachineryError("state graph not connected from Init")
    labels = [tlaval.parse_label(e[2]) for e in edges]
    rejects, onward = {}, {}
    for ei, (src, dst, lab) in enumerate(edges):
        name = labels[ei][0]
        if name == "AddRejected":
            if src != dst:
                raise tlc.MachineryError("AddRejected changes the state")
            rejects.setdefault(src, []).append(ei)
        elif name in ("Step", "Stop"):
            if src in onward:
                raise tlc.MachineryError("two next() transitions from one state")
            onward[src] = ei
    todo = [ei for ei in range(len(edges)) if labels[ei][0] != "AddRejected"]
    ctx.log("%s: %d states, %d transitions (%d rejected add() folded into %d replays)" %
            (cfg, len(nodes), len(edges), len(edges) - len(todo), len(todo)))
    nrej_done = 0
    mism = 0
    for ei in todo:
        src, dst, lab = edges[ei]
        path = graphcover.path_to(parent, src)
        root = edges[path[0]][0] if path else src
        steps = list(path)
        if not nodes[src]["ended"]:
            steps += rejects.get(src, [])
            nrej_done += len(rejects.get(src, []))
        steps.append(ei)
        cur = dst
        for _ in range(drain):
            if cur not in onward:
                break
            steps.append(onward[cur])
            if labels[onward[cur]][0] == "Stop":
                break
            cur = edges[onward[cur]][1]
        ses = Session(al, nodes[root]["keep"], Q, "lin", "sym", variant=ei)
        slot = {}
        differs = None
        for k, si in enumerate(steps):
            name, args = labels[si]
            st = nodes[edges[si][1]]
            if name == "Add":
                ev = ses.add(args[0], args[1])
                ok = ev["res"] == "ok"
                slot[st["np"][-1]["id"]] = ses.nev
            elif name == "AddRejected":
                ev = ses.add(args[0], 1)
                ok = ev["res"] == "ValueError"
            elif name == "Step":
                ev = ses.next()
                exp = sorted([slot[i], j, 1] for (i, j) in st["out"])
                ok = ev["res"] == "out" and ev["zc"] == 1 and ev["items"] == exp
            else:
                ev = ses.next()
                ok = ev["res"] == "end"
            if not ok and differs is None:
                differs = {"step": k, "action": edges[si][2],
                           "spec_out": sorted(map(list, st["out"])) if name == "Step" else name}
        ctx.count(len(steps), nontrivial_key=(cfg, ei) if len(steps) >= 3 else None)
        if ei % 5003 == 0:
            ctx.sample({"graph": cfg, "history": [edges[si][2] for si in steps],
                        "observed": ses.events[-3:]})
        if differs is not None:
            mism += 1
            if mism <= 3000 or (mism % 25 == 0 and len(pending) < MAX_ADJUDICATE):
                pending.append((Q, ses, differs, cfg))
    ctx.traces += len(todo)
    ctx.log("%s: %d replays (%d rejected add() exercised), %d differ from the operational layer" %
            (cfg, len(todo), nrej_done, mism))
    return mism


def adjudicate(ctx, pending, total):
    """Replays that differ from the operational layer: TLC decides with the closed form (ties open)."""
    if not pending:
        return
    ctx.log("%d replays differ from the operational layer; %d of them judged by TLC with the closed form"
            % (total, len(pending)))
    byq = {}
    for item in pending:
        byq.setdefault(item[0], []).append(item)
    for Q, items in sorted(byq.items()):
        acc, rej, _ = judge(ctx, Q, [s.trace() for _, s, _, _ in items], "C16 adjudication of differing replays")
        for tid, (l, clause) in sorted(rej.items()):
            _, ses, differs, cfg = items[tid - 1]
            det = ses.describe()
            det.update({"graph": cfg, "first_difference_from_operational_layer": differs,
                        "rejected_at_event": l, "failing_clause": clause})
            ctx.violation("C16:replay:%s" % clause, det)
        if acc:
            _, ses, differs, cfg = items[min(acc) - 1]
            ctx.log("DIAGNOSTIC (not a violation): %d differing replays are accepted by the closed form "
                    "(half-sample tie resolved the other way), e.g. %s at %s" %
                    (len(acc), ses.inputs, differs))


# ------------------------------------------------------------------------------------------------
# ControlStream
def replay_control(ctx, al):
    d = tlc.scratch_dir("c16c")
    dot = os.path.join(d, "c.dot")
    r = tlc.require_ok(tlc.run("Mixer", "Mixer_ctl.cfg", dump_dot=dot), "Mixer_ctl",
                       need_actions=("CAssign", "CRead"))
    ctx.add_tlc(r, "ControlStream machine")
    nodes, inits, edges = tlaval.read_dot(dot)
    parent, order, outmap = graphcover.cover(inits, edges)
    labels = [tlaval.parse_label(e[2]) for e in edges]
    pool = {"v1": 7, "v2": LinForm.sym(1), "v3": None}
    rev = {id(v): k for k, v in pool.items()}
    def read(cs, k):
        x = cs.take() if k % 2 else next(iter(cs))
        return rev.get(id(x), safe_repr(x))

    for ei, (src, dst, lab) in enumerate(edges):
        path = graphcover.path_to(parent, src) + [ei]
        root = edges[path[0]][0]
        cs = al.ControlStream(pool[nodes[root]["cval"]])
        # a read before anything else (the generator is running when the assignments come), then the path,
        # every CRead compared with its label, and two reads in the final state compared with TLC's cdef
        hist = ["read"]
        bad = []
        got = read(cs, ei)
        if got != nodes[root]["cdef"]:
            bad.append(("first read", nodes[root]["cdef"], got))
        for si in path:
            name, args = labels[si]
            hist.append(edges[si][2])
            if name == "CAssign":
                cs.value = pool[args[0]]
            else:
                got = read(cs, si)
                if got != args[0]:
                    bad.append((edges[si][2], args[0], got))
        for k in range(2):
            got = read(cs, k)
            hist.append("read")
            if got != nodes[dst]["cdef"]:
                bad.append(("final read", nodes[dst]["cdef"], got))
        ctx.count(len(hist), nontrivial_key=("ctl", ei))
        if bad:
            ctx.violation("C16:control:replay", {"history": hist, "initial": nodes[root]["cval"],
                                                 "differences(where, expected, got)": bad})
    ctx.traces += len(edges)
    ctx.log("ControlStream: %d states, %d transitions replayed" % (len(nodes), len(edges)))


def record_control(ctx, al, length):
    rng = ctx.rng
    pool = {"v1": 7, "v2": 9, "v3": 2.5, "v4": -1, "v5": 100}
    names = sorted(pool)
    init = rng.choice(names)
    cs = al.ControlStream(pool[init])
    route = rng.randrange(3)
    if route == 0:
        src = cs
    elif route == 1:
        src = al.Stream(0) + cs                 # a consumer built on top: reads one value per sample
    else:
        src = cs.map(lambda x: x)

    def tag(x):
        for k, v in pool.items():
            if type(x) is type(v) and x == v:
                return k
        return safe_repr(x)
    events = []
    for _ in range(length):
        if rng.random() < 0.45:
            v = rng.choice(names)
            cs.value = pool[v]
            events.append({"op": "assign", "v": v})
        else:
            k = rng.randrange(1, 4)
            got = src.take(k) if rng.random() < 0.5 else [next(iter(src)) for _ in range(k)]
            events.append({"op": "read", "got": [tag(x) for x in got]})
    return {"kind": "ctl", "init": init, "route": route, "events": events}


# ------------------------------------------------------------------------------------------------
# M3: recorded histories
def record_mix(ctx, al, Q, style):
    rng = ctx.rng
    keep = rng.random() < 0.35
    if style == "drift":
        enc, zero = "lin", "sym"
        keep = rng.random() < 0.2
    else:
        enc = "num" if rng.random() < 0.3 else "lin"
        zero = rng.choice(["int1", "float1", "default", "frac1"]) if enc == "num" else "sym"
    ses = Session(al, keep, Q, enc, zero, variant=rng.randrange(1000))
    half = Q // 2
    ended = False

    def data_len(hi):
        return rng.choice([0, 1, 1, 2, 2, 3, hi])

    def call_next():
        nonlocal ended
        ev = ses.next()
        if ev["res"] != "out":
            ended = True
        return ev

    if style == "drift":
        nev = rng.randrange(120, 260) if not ctx.thorough else rng.randrange(200, 420)
        small = [t for t in (1, 3, Q - 1, Q + 1, half + 1, 2 * Q - 1) if t % Q]
        fr = rng.sample(small, 2)
        tcum, n = 0, 0
        for i in range(nev):
            if ended:
                break
            d = rng.choice(fr)
            tcum += d
            ses.add(d, rng.choice([1, 1, 2]))
            while not ended and n * Q < tcum - rng.choice([0, Q, 2 * Q]):
                call_next()
                n += 1
        for _ in range(6):
            if not ended:
                call_next()
    else:
        nev = rng.randrange(3, 41)
        front = rng.choice([0, 1, nev // 2, nev])
        pool = [0, 0, half, half, Q, Q, 1, Q - 1, Q + half, 2 * Q + half, 2 * Q + Q - 1, 3 * Q]
        p_add = rng.choice([0.2, 0.45, 0.7])
        added = 0
        steps = 0
        while steps < 400:
            steps += 1
            want_add = added < nev and (added < front or rng.random() < p_add)
            if want_add and not ended:
                r = rng.random()
                if r < 0.08:
                    ses.add(-rng.choice([1, half, Q, 3 * Q]), 2)     # rejected, never plays
                    continue
                d = rng.choice(pool) if r < 0.8 else rng.randrange(0, 4 * Q)
                ses.add(d, data_len(rng.randrange(0, 7)))
                added += 1
            elif ended:
                call_next()
                break
            else:
                call_next()
                if keep and added >= nev and rng.random() < 0.15:
                    break
    return ses


def run_m3(ctx, al):
    plan = [(4, 60, 8, 10), (10, 20, 6, 0), (3, 10, 3, 0)] if not ctx.thorough else \
           [(4, 500, 40, 60), (10, 150, 20, 0), (3, 100, 20, 0), (16, 100, 10, 0)]
    for Q, ngen, ndrift, nctl in plan:
        sessions = [record_mix(ctx, al, Q, "gen") for _ in range(ngen)]
        sessions += [record_mix(ctx, al, Q, "drift") for _ in range(ndrift)]
        traces = [s.trace() for s in sessions]
        ctl = [record_control(ctx, al, 60 if not ctx.thorough else 200) for _ in range(nctl)]
        traces += ctl
        acc, rej, diag = judge(ctx, Q, traces, "C16 recorded histories, Q=%d" % Q)
        nevents = sum(len(t["events"]) for t in traces)
        ctx.count(nevents)
        ctx.traces += len(acc)
        ctx.nontrivial_count += len(acc)
        ctx.log("M3 Q=%d: %d mixer histories (%d drift runs, longest %d calls, most events %d) + %d "
                "ControlStream histories: %d accepted, %d rejected" %
                (Q, len(sessions), ndrift, max(len(s.events) for s in sessions),
                 max(s.nev for s in sessions), len(ctl), len(acc), len(rej)))
        if diag:
            tid = min(diag)
            ctx.log("DIAGNOSTIC (not a violation): in %d accepted histories the code left the operational "
                    "layer (tie direction%s), first at trace %d event %s" %
                    (len([t for t in diag if t in acc]), "" if Q == 4 else "; deltas are not exact floats for Q=%d" % Q,
                     tid, diag[tid][0]))
        if sessions:
            ctx.sample({"recorded_history_prefix": sessions[0].events[:4], "Q": Q, "keep": sessions[0].keep})
        for tid, (l, clause) in sorted(rej.items()):
            if tid <= len(sessions):
                det = sessions[tid - 1].describe()
                det["observed"] = det["observed"][:l + 1]
                det["inputs"] = det["inputs"][:l + 1]
                det.update({"rejected_at_event": l, "failing_clause": clause})
                ctx.violation("C16:trace:%s" % clause, det)
            else:
                t = ctl[tid - 1 - len(sessions)]
                ctx.violation("C16:control:%s" % clause,
                              {"init": t["init"], "route": t["route"], "rejected_at_event": l,
                               "events_up_to_rejection": t["events"][:l]})


# ------------------------------------------------------------------------------------------------
def check(ctx):
    al = common.import_audiolazy()
    ctx.rule = ("M2: one replay per transition of the TLC state graphs (BFS path to its source, the source's "
                "rejected add()s, the transition, then next() along the model's Step/Stop edges), non-trivial = "
                ">= 3 calls; M3: recorded histories accepted by TLC")
    ctx.assumptions = [
        "deltas are whole numbers of ticks (1/Q sample; Q = 4 in M1/M2: exact in the code's floats)",
        "an exact half-sample tie may start at either neighbouring sample (the statement says 'nearest')",
        "no add() after the mixer has raised StopIteration; keep is fixed at construction",
        "data are finite iterables; the zero value and the items support + (symbolic linear forms / numbers)",
        "ControlStream is read with next()/take()/derived streams, not with peek() (which buffers)",
    ]
    # M1: exhaustive small histories against the absolute closed form (no VIEW)
    hist = "Mixer_hist_thorough.cfg" if ctx.thorough else "Mixer_hist_quick.cfg"
    r = tlc.require_ok(tlc.run("Mixer", hist, timeout=3000), hist,
                       need_actions=("Add", "AddRejected", "Step", "Stop"))
    ctx.add_tlc(r, "Mixer histories vs closed form (%s)" % hist)
    ctx.log("%s: %d histories/states, closed form holds on all" % (hist, r.distinct))
    # M1 + M2: state graphs
    pending = []
    total = 0
    graphs = [("Mixer_quick.cfg", 4), ("Mixer_quick3.cfg", 4)] if not ctx.thorough else \
             [("Mixer_thorough.cfg", 5), ("Mixer_thorough3.cfg", 4)]
    for cfg, drain in graphs:
        total += replay_graph(ctx, al, cfg, 4, drain, pending)
    adjudicate(ctx, pending, total)
    replay_control(ctx, al)
    ctx.exhaustive = True
    # M3
    run_m3(ctx, al)


def replay(ctx, rep):
    """./vf replay C16 <file>: run the recorded inputs on the real code again and let TLC judge."""
    al = common.import_audiolazy()
    det = rep["detail"]
    if "inputs" not in det:
        print(det)
        return 0
    ses = Session(al, det["keep"], det["Q"], det["encoding"], det["zero"], det.get("variant", 0))
    for inp in det["inputs"]:
        if inp[0] == "add":
            ses.add(inp[1], inp[2])
        else:
            ses.next()
    acc, rej, _ = judge(ctx, det["Q"], [ses.trace()], "C16 replay")
    for ev in ses.events:
        print(ev)
    if rej:
        print("REJECTED by the specification: %r" % (rej,))
        return 1
    print("accepted by the specification")
    return 0
