"""Helpers of extension check X02 (drive_x02.py): real objects <-> the member / value encoding of
spec/dsp/FilterStruct.tla."""
import itertools
from fractions import Fraction

import tlc
from exact import LinForm, lin_vec, vec_to_lin

F = Fraction
INF = 1000000


class Bad(Exception):
    """an observation that cannot even be encoded (wrong type, inexact number ...)"""


def rat_of(v):
    return F(v[0], v[1])


def rat(x):
    x = F(x)
    return [x.numerator, x.denominator]


def pynum(c):
    """exact rational -> the number handed to the library (int or an exactly representable float)"""
    c = F(c)
    if c.denominator == 1:
        return int(c)
    fl = float(c)
    if F(fl) != c:
        raise tlc.MachineryError("%s is not a dyadic rational" % c)
    return fl


def exact(x):
    if isinstance(x, bool):
        return None
    if isinstance(x, (int, Fraction)):
        return F(x)
    if isinstance(x, float) and x == x and abs(x) != float("inf"):
        return F(x)
    return None


def poly_of(v):
    """TLA+ function power -> <<n, d>> (a tuple when the domain is 1..n) -> {power: Fraction}"""
    if isinstance(v, (tuple, list)):
        return {i + 1: rat_of(c) for i, c in enumerate(v)}
    return {int(k): rat_of(c) for k, c in v.items()}


def taps_of(v):
    """TLA+ function tap -> coefficient record -> {tap: record}"""
    if isinstance(v, (tuple, list)):
        return {i + 1: c for i, c in enumerate(v)}
    return {int(k): c for k, c in v.items()}


def plain(v):
    """TLA+ value (as parsed) -> JSON-like canonical Python value: tuples -> lists, frozensets -> sorted lists"""
    if isinstance(v, dict):
        return {str(k): plain(x) for k, x in v.items()}
    if isinstance(v, (tuple, list)):
        return [plain(x) for x in v]
    if isinstance(v, (set, frozenset)):
        return sorted(plain(x) for x in v)
    return v


# ---------------------------------------------------------------------------------------------------
# counting sources
class Source(object):
    """iterator that counts the items it has delivered"""

    def __init__(self, items=None, cycle=None):
        self.it = iter(items) if cycle is None else itertools.cycle(cycle)
        self.n = 0

    def __iter__(self):
        return self

    def __next__(self):
        v = next(self.it)
        self.n += 1
        return v


# ---------------------------------------------------------------------------------------------------
# members of the specification <-> real objects
def coef_py(al, c):
    """coefficient record -> number or a fresh Stream"""
    if c["k"] == "c":
        return pynum(rat_of(c["v"]))
    vals = [pynum(rat_of(v)) for v in c["s"]]
    return al.Stream(*vals) if c["per"] else al.Stream(list(vals))


def is_zero_coef(c):
    return c["k"] == "c" and c["v"][0] == 0


class World(object):
    """builds real objects for spec members and remembers which member every built leaf stands for"""

    def __init__(self, al):
        self.al = al
        self.reg = {}          # id(obj) -> (obj, plain spec member)
        al_ = al

        def alt(seq, memory=None, zero=0.):
            def gen():
                for i, v in enumerate(seq):
                    yield v if i % 2 == 0 else -v
            return al_.Stream(gen())
        self.alt = alt
        self.cls = {"C": al.CascadeFilter, "P": al.ParallelFilter, "L": al.lazy_filters.FilterList, "list": list}

    def remember(self, obj, m):
        self.reg[id(obj)] = (obj, plain(m))
        return obj

    def flt(self, m, cls=None):
        al = self.al
        adv = m["adv"]
        num = {i - adv: coef_py(al, c) for i, c in enumerate(m["b"]) if not is_zero_coef(c)}
        den = {i: coef_py(al, c) for i, c in enumerate(m["a"]) if not is_zero_coef(c)}
        return (cls or al.ZFilter)(num, den)

    def build(self, m, route="list"):
        """member (parsed TLA+ / JSON) -> real object"""
        k = m["m"]
        if k == "flt":
            return self.remember(self.flt(m), m)
        if k == "num":
            return pynum(rat_of(m["c"]))
        if k == "fn":
            return self.alt
        if k == "box":
            items = [self.build(x, route) for x in m["items"]]
            if m["cls"] == "list":
                return list(items)
            return self.cls[m["cls"]](list(items))        # (a sole list argument is unpacked: exactly these members)
        if k == "seq":
            items = [self.build(x, route) for x in m["items"]]
            if route == "tuple":
                return tuple(items)
            if route == "gen":
                return (x for x in items)
            return items
        raise ValueError(k)

    def container(self, cls, args, route="list"):
        return self.cls[cls](*[self.build(a, route) for a in args])

    # ---- real object -> plain spec member -------------------------------------------------------
    def describe(self, obj):
        al = self.al
        hit = self.reg.get(id(obj))
        if hit is not None and hit[0] is obj:
            return hit[1]
        if obj is self.alt:
            return {"m": "fn"}
        if isinstance(obj, al.lazy_filters.FilterList):
            cls = {al.CascadeFilter: "C", al.ParallelFilter: "P", al.lazy_filters.FilterList: "L"}.get(type(obj))
            if cls is None:
                raise Bad("unexpected container class %s" % type(obj).__name__)
            return {"m": "box", "cls": cls, "items": [self.describe(x) for x in obj]}
        if isinstance(obj, (list, tuple)):
            return {"m": "box", "cls": "list" if isinstance(obj, list) else "tuple", "items": [self.describe(x) for x in obj]}
        if isinstance(obj, al.lazy_filters.LinearFilter):
            return flt_member(obj.numpoly, obj.denpoly)
        e = exact(obj)
        if e is not None:
            return {"m": "num", "c": rat(e)}
        raise Bad("cannot describe %r" % (obj,))


def const(c):
    return {"k": "c", "v": rat(c)}


def flt_member(numpoly, denpoly):
    """canonical "flt" member of two Poly objects with exact constant coefficients"""
    n, d = obs_poly(numpoly), obs_poly(denpoly)
    adv = max(0, -min(n)) if n else 0
    b = [const(n.get(i - adv, 0)) for i in range((max(n) + adv + 1) if n else 0)]
    a = [const(d.get(i, 0)) for i in range((max(d) + 1) if d else 0)]
    if d and min(d) < 0:
        raise Bad("denominator with a negative power")
    return {"m": "flt", "b": b, "a": a, "adv": adv}


def obs_poly(P):
    """dict(poly.terms()) as {int power: Fraction} (zeros dropped); Bad for non-integer powers / inexact values"""
    out = {}
    for k, v in P.terms():
        e = exact(v)
        if e is None:
            raise Bad("coefficient %r at power %r is not an exact number" % (v, k))
        if isinstance(k, float) and k.is_integer():
            k = int(k)
        if isinstance(k, bool) or not isinstance(k, int):
            raise Bad("power %r is not an integer" % (k,))
        if e != 0:
            out[k] = e
    return out


def pmul(a, b):
    out = {}
    for k1, c1 in a.items():
        for k2, c2 in b.items():
            out[k1 + k2] = out.get(k1 + k2, 0) + c1 * c2
    return {k: c for k, c in out.items() if c != 0}


def equiv(o, v):
    """the same rational function (cross-multiplication); o = (num, den) observed, v expected"""
    return bool(o[1]) and pmul(o[0], v[1]) == pmul(v[0], o[1])


def show(p):
    return {str(k): str(v) for k, v in sorted(p.items())}


def pairs(p):
    return [[k, rat(v)] for k, v in sorted(p.items())]


def vecs(out, ns):
    res = []
    for o in out:
        v = lin_vec(o, ns)
        if v is None:
            raise Bad("sample %r is not an exact linear form" % (o,))
        res.append([list(p) for p in v])
    return res


def want_vecs(seq):
    return [[list(p) for p in v] for v in seq]


def vshow(vs):
    return [repr(vec_to_lin(v)) for v in vs]


def xs(n, start=1):
    return [LinForm.sym(i) for i in range(start, start + n)]


def member_str(m):
    k = m["m"]
    if k == "flt":
        def cs(v):
            return ",".join(("%s" % rat_of(c["v"])) if c["k"] == "c" else "S" for c in v)
        return "flt(b=[%s] a=[%s]%s)" % (cs(m["b"]), cs(m["a"]), " adv=%d" % m["adv"] if m["adv"] else "")
    if k == "num":
        return str(rat_of(m["c"]))
    if k in ("fn", "none"):
        return k
    return "%s[%s]" % (m.get("cls", "seq"), ", ".join(member_str(x) for x in m["items"]))
