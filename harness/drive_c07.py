"""C07 - Poly is an exact commutative ring with evaluation, composition and calculus.

M1  TLC: spec/dsp/PolyC07.tla (machine + grids) over spec/dsp/Poly.tla (operational operators = the code's
    loops, definition layer = coefficient formulas, law predicates): ring laws on pairs / triples, p-p empty,
    p**n = n-fold product, no zero stored, Horner register machine == general sum == sum_k c_k v^k (with the
    loop invariant of the merged-step scheme), evaluation homomorphism, composition, linearity / product
    rule / diff-undoes-integrate, Lagrange passes through its points, == / hash coherence.
M2  spec -> code: every dumped state is replayed on real audiolazy.Poly objects built through every
    construction route (dict / list / `x` expression / float powers + explicit zeros); dict(p.terms()),
    p(v), p(v, horner=...), ==, !=, hash are compared with the values TLC exported in `res`; the Horner
    prefixes are replayed as the evaluation of the polynomial cut at the register's power.
M3  code -> spec: seeded random larger Laurent polynomials (<= 8 terms, powers -6..10); every call's operands
    and results are logged and judged by TLC (spec/trace/PolyTrace.tla) with Poly.tla's own operators.
"""
import os
from fractions import Fraction
from functools import reduce
from math import gcd

import common
import tlaval
import tlc
import tracecheck

F = Fraction
LIMIT = 1 << 28          # room left below TLC's 32-bit integers (pre-screen, from the inputs alone)


# --------------------------------------------------------------------------------------------------
# values
def rat_of(v):
    return F(v[0], v[1])


def poly_of(v):
    """TLA+ polynomial (function power -> <<n, d>>; printed as a tuple when the domain is 1..n) -> {k: Fraction}"""
    if isinstance(v, tuple):
        return {i + 1: rat_of(c) for i, c in enumerate(v)}
    return {int(k): rat_of(c) for k, c in v.items()}


def exact(x):
    """number returned by the code -> Fraction, or None when it is not an exact scalar"""
    if isinstance(x, bool):
        return None
    if isinstance(x, (int, Fraction)):
        return F(x)
    if isinstance(x, float) and x == x and x not in (float("inf"), float("-inf")):
        return F(x)
    return None


class Bad(Exception):
    """observation that cannot be compared (wrong type, zero stored ...): becomes a violation"""


def terms(P):
    """dict(p.terms()) as {int: Fraction}; a stored zero / non-integer power / inexact value raises Bad"""
    out = {}
    for k, v in dict(P.terms()).items():
        e = exact(v)
        if e is None:
            raise Bad("coefficient %r of power %r is not an exact number" % (v, k))
        if isinstance(k, bool) or not isinstance(k, int):
            raise Bad("power %r is not an int" % (k,))
        if e == 0:
            raise Bad("zero coefficient stored at power %r" % (k,))
        out[k] = e
    return out


def show(d):
    if isinstance(d, dict):
        return {str(k): str(v) for k, v in sorted(d.items())}
    return str(d)


def pairs(d):
    return [[k, [v.numerator, v.denominator]] for k, v in sorted(d.items())]


ROUTES = ("dict", "list", "xexpr", "messy")
EVAL_ROUTES = ROUTES + ("grown",)


def build(al, d, route):
    """A real Poly for the polynomial {power: Fraction}; None when the route does not apply."""
    Poly, x = al.Poly, al.x
    if route == "dict":
        return Poly(dict(d), zero=0)
    if route == "list":
        if any(k < 0 for k in d):
            return None
        n = max(d) + 1 if d else 0
        return Poly([d.get(k, F(0)) for k in range(n)], zero=0)
    if route == "xexpr":
        if not d:
            return x - x
        return sum(c * x ** k for k, c in sorted(d.items()))
    if route == "grown":
        # a polynomial that was evaluated (both schemes) when it had only its first term and was then completed term
        # by term by item assignment: it is the polynomial of its CURRENT terms, whatever scheme evaluates it
        items = sorted(d.items())
        P0 = Poly(dict(items[:1]), zero=0)
        try:
            P0(F(2)), P0(F(2), horner=True), P0(F(2), horner=False)
        except Exception:                                   # noqa: what is judged comes later
            pass
        for k, c in items[1:]:
            P0[k] = c
        return P0
    if route == "messy":
        # integer-valued float powers, explicit zero entries, default (float) zero
        m = {}
        for j, (k, c) in enumerate(sorted(d.items())):
            m[float(k) if j % 2 == 0 else k] = c
        lo = min(d) if d else 0
        m[lo - 1] = F(0)
        m[float(lo - 2)] = 0
        return Poly(m)
    if route == "int":
        # plain ints as coefficients: exact under + - * ** diff (NOT under / : int / int is a float in Python, so
        # this route is never used for integrate, negative powers of numbers or interpolation)
        if any(c.denominator != 1 for c in d.values()):
            return None
        return Poly({k: int(c) for k, c in d.items()}, zero=0)
    raise ValueError(route)


# --------------------------------------------------------------------------------------------------
class Replayer(object):
    def __init__(self, ctx, al):
        self.ctx = ctx
        self.al = al
        self.diag = {}

    def note(self, what, detail):
        """disagreement with the model on something the property does not state: diagnostics only"""
        if what not in self.diag:
            self.diag[what] = 0
            self.ctx.log("diagnostic (not a violation): %s %s" % (what, detail))
        self.diag[what] += 1

    def expect_poly(self, key, info, fn, want):
        """run fn() on the real objects; its terms must be the polynomial `want`"""
        self.ctx.count(1)
        try:
            got = terms(fn())
        except Bad as ex:
            self.ctx.violation("C07:%s" % ("zero-stored" if "zero coefficient" in str(ex) else key),
                               dict(info, op=key, why=str(ex), expected=show(want)))
            return False
        except Exception as ex:
            self.ctx.violation("C07:%s-raises" % key, dict(info, op=key, expected=show(want),
                                                            raised="%s: %s" % (type(ex).__name__, str(ex)[:120])))
            return False
        if got != want:
            self.ctx.violation("C07:%s" % key, dict(info, op=key, expected=show(want), observed=show(got)))
            return False
        return True

    def expect_num(self, key, info, fn, want, raises_key=None):
        self.ctx.count(1)
        try:
            raw = fn()
        except Exception as ex:
            self.ctx.violation("C07:%s" % (raises_key or key + "-raises"), dict(info, op=key, expected=str(want),
                                                            raised="%s: %s" % (type(ex).__name__, str(ex)[:120])))
            return False
        got = exact(raw)
        if got is None or got != want:
            self.ctx.violation("C07:%s" % key, dict(info, op=key, expected=str(want), observed=repr(raw)))
            return False
        return True

    def eq_hash(self, info, A, B, model_equal, what):
        """the property: A == B implies hash(A) == hash(B) and not A != B"""
        self.ctx.count(1)
        try:
            eq, ne = bool(A == B), bool(A != B)
            hq = hash(A) == hash(B)
        except Exception as ex:
            self.ctx.violation("C07:eq-hash-raises", dict(info, op=what, raised="%s: %s" % (type(ex).__name__, ex)))
            return
        if eq and (ne or not hq):
            self.ctx.violation("C07:eq-hash", dict(info, op=what, eq=eq, ne=ne, hash_equal=hq))
        if eq != model_equal:
            self.note("== differs from 'same polynomial'", dict(info, op=what, eq=eq, same_polynomial=model_equal))

    # ---- one dumped state ----------------------------------------------------------------------
    def state(self, st, idx):
        case, pc, res = st["case"], st["pc"], st["res"]
        kind = case["kind"]
        if pc == "start":
            return
        getattr(self, "k_" + kind)(case, pc, res, st, idx)

    def routes_for(self, idx, *ds):
        """all routes every 3rd state, otherwise two routes chosen by the state's index"""
        if idx % 3 == 0:
            return ROUTES
        return (ROUTES[idx % 4], ROUTES[(idx // 4 + 1 + idx % 4) % 4])

    def k_un(self, case, pc, res, st, idx):
        al = self.al
        p = poly_of(case["p"])
        for route in ROUTES:
            P = build(al, p, route)
            if P is None:
                continue
            info = {"p": show(p), "route": route}
            self.ctx.count(0, nontrivial_key=("un", tuple(sorted(p.items()))) if len(p) >= 2 else None)
            self.expect_poly("construct", info, lambda: P, p)
            self.expect_poly("neg", info, lambda: -P, poly_of(res["neg"]))
            self.expect_poly("pos", info, lambda: +P, poly_of(res["pos"]))
            self.expect_poly("sub-self", info, lambda: P - P, poly_of(res["subself"]))
            for n, want in enumerate(res["pows"]):
                self.expect_poly("pow", dict(info, n=n), lambda: P ** n, poly_of(want))
            self.expect_poly("diff", info, lambda: P.diff(), poly_of(res["diff"]))
            self.expect_poly("diff", dict(info, n=2), lambda: P.diff(2), poly_of(res["diff2"]))
            if res["canint"]:
                self.expect_poly("integrate", info, lambda: P.integrate(), poly_of(res["integ"]))
                self.expect_poly("diff-integrate", info, lambda: P.integrate().diff(), poly_of(res["dinteg"]))
            # p - p is the empty polynomial: also through ==, with the coherence clause
            try:
                E = P - P
                self.eq_hash(info, E, al.Poly(zero=0), True, "p-p == Poly()")
            except Exception:
                pass
        P = build(al, p, "int")
        if P is not None:
            info = {"p": show(p), "route": "int"}
            self.expect_poly("neg", info, lambda: -P, poly_of(res["neg"]))
            self.expect_poly("sub-self", info, lambda: P - P, poly_of(res["subself"]))
            for n, want in enumerate(res["pows"]):
                self.expect_poly("pow", dict(info, n=n), lambda: P ** n, poly_of(want))
            self.expect_poly("diff", info, lambda: P.diff(), poly_of(res["diff"]))

    def k_ev(self, case, pc, res, st, idx):
        al = self.al
        p = poly_of(case["p"])
        v = rat_of(case["v"])
        nt = ("ev", tuple(sorted(p.items())), v) if len(p) >= 2 else None
        for route in tuple(self.routes_for(idx)) + (("grown",) if idx % 2 == 0 else ()):
            info = {"p": show(p), "v": str(v), "route": route, "pc": pc}
            if pc == "horner":
                # registers after consuming the terms of power >= pw: the value of that part of p
                pw = st["hreg"]["pw"]
                part = {k: c for k, c in p.items() if k >= pw}
                P = build(al, part, route)
                if P is None:
                    continue
                self.ctx.count(0, nontrivial_key=nt)
                self.expect_num("eval-horner", dict(info, upper_part_from=pw), lambda: P(v, horner=True),
                                rat_of(res["part"]))
                continue
            P = build(al, p, route)
            if P is None:
                continue
            self.ctx.count(0, nontrivial_key=nt)
            self.expect_num("eval-sum", info, lambda: P(v, horner=False), rat_of(res["sum"]))
            if pc == "done":
                self.expect_num("eval-horner", info, lambda: P(v, horner=True), rat_of(res["horner"]))
                self.expect_num("eval-auto", info, lambda: P(v), rat_of(res["auto"]))
                if v.denominator == 1 and all(k >= 0 for k in p):
                    self.expect_num("eval-auto", dict(info, value_type="int"), lambda: P(int(v)), rat_of(res["auto"]))

    def k_bin(self, case, pc, res, st, idx):
        al = self.al
        p, q = poly_of(case["p"]), poly_of(case["q"])
        add, sub, mul = poly_of(res["add"]), poly_of(res["sub"]), poly_of(res["mul"])
        rts = self.routes_for(idx)
        combos = [(rts[0], rts[0]), (rts[-1], rts[0]), (rts[0], rts[-1])] if len(rts) == 2 else \
                 [(a, b) for a in rts for b in rts if (ROUTES.index(a) + ROUTES.index(b)) % 2 == 0 or a == b]
        nt = ("bin", tuple(sorted(p.items())), tuple(sorted(q.items()))) if len(p) >= 2 and len(q) >= 2 else None
        for ra, rb in combos:
            P, Q = build(al, p, ra), build(al, q, rb)
            if P is None or Q is None:
                continue
            info = {"p": show(p), "q": show(q), "routes": [ra, rb]}
            self.ctx.count(0, nontrivial_key=nt)
            self.expect_poly("add", info, lambda: P + Q, add)
            self.expect_poly("add", dict(info, order="q+p"), lambda: Q + P, add)
            self.expect_poly("sub", info, lambda: P - Q, sub)
            self.expect_poly("mul", info, lambda: P * Q, mul)
            self.expect_poly("mul", dict(info, order="q*p"), lambda: Q * P, mul)
            self.expect_poly("diff-linear", info, lambda: (P + Q).diff(), poly_of(res["dadd"]))
            self.expect_poly("diff-linear", dict(info, form="p'+q'"), lambda: P.diff() + Q.diff(), poly_of(res["dadd"]))
            self.expect_poly("product-rule", info, lambda: (P * Q).diff(), poly_of(res["dmul"]))
            self.expect_poly("product-rule", dict(info, form="p'q+pq'"), lambda: P.diff() * Q + P * Q.diff(),
                             poly_of(res["dmul"]))
            if res["cdef"]:
                self.expect_poly("compose", info, lambda: P(Q), poly_of(res["comp"]))
            # scalars on either side (reflected operators) when one operand is a constant
            for cd, other, O, side in ((q, p, P, "right"), (p, q, Q, "left")):
                if set(cd) <= {0}:
                    c = cd.get(0, F(0))
                    for cv in ((c, int(c)) if c.denominator == 1 else (c,)):
                        i2 = dict(info, scalar=repr(cv), side=side)
                        if side == "right":
                            self.expect_poly("add", i2, lambda: O + cv, add)
                            self.expect_poly("sub", i2, lambda: O - cv, sub)
                            self.expect_poly("mul", i2, lambda: O * cv, mul)
                        else:
                            self.expect_poly("add", i2, lambda: cv + O, add)
                            self.expect_poly("sub", i2, lambda: cv - O, sub)
                            self.expect_poly("mul", i2, lambda: cv * O, mul)
            # evaluation is a ring homomorphism
            for i, h in enumerate(res["hom"]):
                if not h["def"]:
                    continue
                v = POINTS[i]
                i2 = dict(info, v=str(v))
                self.expect_num("hom-mul", i2, lambda: (P * Q)(v), rat_of(h["mul"]))
                self.expect_num("hom-mul", dict(i2, form="p(v)*q(v)"), lambda: exact(P(v)) * exact(Q(v)), rat_of(h["mul"]))
                self.expect_num("hom-add", i2, lambda: (P + Q)(v), rat_of(h["add"]))
                self.expect_num("hom-add", dict(i2, form="p(v)+q(v)"), lambda: exact(P(v)) + exact(Q(v)), rat_of(h["add"]))
            # == / != / hash
            self.eq_hash(info, P, Q, res["eq"], "p == q")
            try:
                self.eq_hash(info, P + Q, Q + P, True, "p+q == q+p")
                self.eq_hash(info, P * Q, Q * P, True, "p*q == q*p")
            except Exception:
                pass
        P, Q = build(al, p, "int"), build(al, q, "int")
        if P is not None and Q is not None:
            info = {"p": show(p), "q": show(q), "routes": ["int", "int"]}
            self.expect_poly("add", info, lambda: P + Q, add)
            self.expect_poly("sub", info, lambda: P - Q, sub)
            self.expect_poly("mul", info, lambda: P * Q, mul)
            self.expect_poly("product-rule", info, lambda: (P * Q).diff(), poly_of(res["dmul"]))
            if res["cdef"] and all(k >= 0 for k in p):
                self.expect_poly("compose", info, lambda: P(Q), poly_of(res["comp"]))
            self.eq_hash(info, P, build(al, p, "dict"), True, "int coefficients == Fraction coefficients")
        # the same polynomial through two routes
        A, B = build(al, p, "dict"), build(al, p, ROUTES[1 + idx % 3])
        if B is not None:
            self.eq_hash({"p": show(p), "routes": ["dict", ROUTES[1 + idx % 3]]}, A, B, True, "same polynomial, two routes")

    def k_ter(self, case, pc, res, st, idx):
        al = self.al
        p, q, r = poly_of(case["p"]), poly_of(case["q"]), poly_of(case["r"])
        rts = self.routes_for(idx)
        nt = ("ter", tuple(sorted(p.items())), tuple(sorted(q.items())), tuple(sorted(r.items()))) \
            if len(p) >= 2 and len(q) >= 2 and len(r) >= 2 else None
        for k, route in enumerate(rts[:2]):
            P, Q, Rr = build(al, p, route), build(al, q, rts[(k + 1) % len(rts)]), build(al, r, route)
            if P is None or Q is None or Rr is None:
                continue
            info = {"p": show(p), "q": show(q), "r": show(r), "route": route}
            self.ctx.count(0, nontrivial_key=nt)
            a3, m3, ds = poly_of(res["add3"]), poly_of(res["mul3"]), poly_of(res["dist"])
            self.expect_poly("add-assoc", dict(info, form="(p+q)+r"), lambda: (P + Q) + Rr, a3)
            self.expect_poly("add-assoc", dict(info, form="p+(q+r)"), lambda: P + (Q + Rr), a3)
            self.expect_poly("mul-assoc", dict(info, form="(p*q)*r"), lambda: (P * Q) * Rr, m3)
            self.expect_poly("mul-assoc", dict(info, form="p*(q*r)"), lambda: P * (Q * Rr), m3)
            self.expect_poly("distributive", dict(info, form="p*(q+r)"), lambda: P * (Q + Rr), ds)
            self.expect_poly("distributive", dict(info, form="p*q+p*r"), lambda: P * Q + P * Rr, ds)
            self.expect_poly("distributive", dict(info, form="(q+r)*p"), lambda: (Q + Rr) * P, ds)

    def k_lag(self, case, pc, res, st, idx):
        al = self.al
        pts = [(rat_of(a), rat_of(b)) for a, b in case["pts"]]
        single = len(pts) == 1
        rk = "lagrange-single-point" if single else None          # one class of input, one key
        for shape in ("list", "gen"):
            mk = (lambda: list(pts)) if shape == "list" else (lambda: (pt for pt in pts))
            info = {"points": [[str(a), str(b)] for a, b in pts], "given_as": shape}
            self.ctx.count(0, nontrivial_key=("lag", tuple(pts)) if len(pts) >= 2 else None)
            # func strategy: passes through its points
            for j, (xj, yj) in enumerate(pts):
                self.expect_num(rk or "lagrange-func", dict(info, at=str(xj)), lambda: al.lagrange.func(mk())(xj),
                                rat_of(res["at"][j]), raises_key=rk)
            # poly strategy: passes through its points
            try:
                L = al.lagrange.poly(mk())
            except Exception as ex:
                self.ctx.count(1)
                self.ctx.violation("C07:%s" % (rk or "lagrange-poly-raises"),
                                   dict(info, op="lagrange.poly", raised="%s: %s" % (type(ex).__name__, str(ex)[:120])))
                continue
            for xj, yj in pts:
                self.expect_num(rk or "lagrange-poly", dict(info, at=str(xj)), lambda: L(xj), yj, raises_key=rk)
            # beyond the statement (least-degree interpolating polynomial, values between the points)
            try:
                if terms(L) != poly_of(res["poly"]):
                    self.note("lagrange.poly is not the least-degree interpolator", dict(info, observed=show(terms(L))))
                f = al.lagrange.func(mk())
                for i, v in enumerate(POINTS):
                    if exact(f(v)) != rat_of(res["mid"][i]):
                        self.note("lagrange.func between the points", dict(info, at=str(v)))
            except Exception as ex:
                self.note("lagrange extra observation raised", dict(info, raised=repr(ex)))


POINTS = [F(-2), F(-1), F(0), F(1, 2), F(1), F(2), F(3)]      # = Points of PolyC07.tla


def m2(ctx, al, cfg):
    d = tlc.scratch_dir("c07")
    dump = os.path.join(d, "states")
    r = tlc.require_ok(tlc.run("PolyC07", cfg, dump=dump, timeout=2400), "PolyC07",
                       need_actions=("Unary", "EvalShort", "EvalSum", "HornerStart", "HornerNext", "HornerEnd",
                                     "Binary", "Ternary", "Lagrange"))
    ctx.add_tlc(r, "Poly (C07 grid): operational operators == definition layer, laws, Horner machine")
    ctx.log("M1: TLC %d distinct states in %.1fs" % (r.distinct, r.wall))
    rp = Replayer(ctx, al)
    n = 0
    kinds = {}
    for st in tlaval.read_dump(dump + ".dump"):
        n += 1
        kinds[st["case"]["kind"]] = kinds.get(st["case"]["kind"], 0) + 1
        rp.state(st, n)
        if n % 1501 == 0 and st["pc"] == "done":
            ctx.sample({"state": n, "case": {k: (show(poly_of(v)) if k in "pqr" else v) for k, v in st["case"].items()
                                             if k != "pts"}, "pc": st["pc"]})
    if n != r.distinct:
        raise tlc.MachineryError("dump has %d states, TLC reported %d" % (n, r.distinct))
    ctx.traces += n
    ctx.log("M2: %d spec states replayed on audiolazy.Poly %s; %d evaluations so far" % (n, kinds, ctx.evaluations))


# --------------------------------------------------------------------------------------------------
# M3: random larger polynomials, judged by TLC
def lcm(a, b):
    return a * b // gcd(a, b)


def encodable(x):
    """every integer of a JSON-able record fits TLC's 32-bit integers"""
    if isinstance(x, bool):
        return True
    if isinstance(x, int):
        return abs(x) < (1 << 31)
    if isinstance(x, (list, tuple)):
        return all(encodable(y) for y in x)
    if isinstance(x, dict):
        return all(encodable(y) for y in x.values())
    return True


def lcmden(vals):
    return reduce(lcm, [F(v).denominator for v in vals], 1)


def asum(d):
    return sum(abs(c) for c in d.values())


def rand_poly(rng, maxterms, lo=-6, hi=10, dens=(1, 1, 1, 2, 3)):
    n = rng.randint(0, maxterms)
    ks = rng.sample(range(lo, hi + 1), min(n, hi - lo + 1))
    return {k: F(rng.choice([-5, -4, -3, -2, -1, 1, 2, 3, 4, 5]), rng.choice(dens)) for k in ks}


def fits_mul(*ps):
    s, dd = F(1), 1
    for p in ps:
        s *= max(asum(p), 1)
        dd *= lcmden(p.values())
    return 2 * s * dd * dd < LIMIT


def fits_eval(p, v):
    if not p:
        return True
    w = max(abs(v.numerator), v.denominator)
    lo, hi = min(min(p), 0), max(max(p), 0)
    span = hi - lo
    b = lcmden(p.values()) * w ** span
    m = asum(p) * w ** span
    return 2 * m * b * b < LIMIT


def fits_compose(p, q):
    if not p:
        return True
    deg = max(abs(k) for k in p)
    sq = max(asum(q), 1)
    if len(q) == 1:
        c = list(q.values())[0]
        sq = max(abs(c), 1 / abs(c), 1)
        dq = max(abs(c.numerator), c.denominator)
    else:
        dq = lcmden(q.values())
    s = sum(abs(c) * sq ** abs(k) for k, c in p.items())
    dd = lcmden(p.values()) * dq ** deg
    return 2 * s * dd * dd < LIMIT


def fits_lagrange(pts):
    xs = [a for a, _ in pts]
    ys = [b for _, b in pts]
    dx = lcmden(xs)
    dall = lcmden(ys)
    s = F(0)
    for j, xj in enumerate(xs):
        prod_abs, dj = F(1), 1
        for k, xk in enumerate(xs):
            if k != j:
                diff = abs(xj - xk)
                prod_abs *= (1 + abs(xk)) / diff
                dj *= diff.numerator * dx
        dall = lcm(dall, dj)
        s += abs(ys[j]) * prod_abs
    xm = max([abs(a) for a in xs] + [1])
    s *= max(F(1), xm) ** len(xs)
    return 2 * max(s, 1) * dall * dall < LIMIT


def m3(ctx, al, count):
    rng = ctx.rng
    Poly = al.Poly
    recs, meta = [], []

    def mk(d):
        return build(al, d, rng.choice(["dict", "xexpr", "messy"]))

    def P(d):
        return pairs(d)

    def R(v):
        f = exact(v)
        if f is None:
            raise Bad("%r is not an exact number" % (v,))
        return [f.numerator, f.denominator]

    def T(Pobj):
        return pairs_raw(Pobj)

    def pairs_raw(Pobj):
        out = []
        for k, v in dict(Pobj.terms()).items():
            e = exact(v)
            if e is None or isinstance(k, bool) or not isinstance(k, int):
                raise Bad("term (%r, %r) is not an exact integer-power term" % (k, v))
            out.append([k, [e.numerator, e.denominator]])       # a stored zero stays visible to TLC
        return sorted(out)

    vpool = [F(1), F(-1), F(2), F(-2), F(1, 2), F(-1, 2), F(3), F(1, 3), F(3, 2), F(-2, 3)]
    tries = 0
    while len(recs) < count and tries < count * 40:
        tries += 1
        op = rng.choice(["bin", "bin", "ter", "pow", "eval", "eval", "hom", "compose", "calc", "lag"])
        info = {"op": op}
        try:
            if op == "bin":
                p, q = rand_poly(rng, 8), rand_poly(rng, 8)
                if rng.random() < 0.15:
                    q = dict(p)
                if rng.random() < 0.1:
                    q = {k: -c for k, c in p.items()}
                if not fits_mul(p, q):
                    continue
                info.update(p=show(p), q=show(q))
                A, B = mk(p), mk(q)
                rec = {"op": op, "p": P(p), "q": P(q), "add": T(A + B), "radd": T(B + A), "sub": T(A - B),
                       "mul": T(A * B), "rmul": T(B * A), "dmul": T((A * B).diff()),
                       "eq": bool(A == B), "ne": bool(A != B), "hasheq": hash(A) == hash(B)}
            elif op == "ter":
                p, q, r = rand_poly(rng, 5), rand_poly(rng, 5), rand_poly(rng, 5)
                if not fits_mul(p, q, r) or not fits_mul(p, {0: asum(q) + asum(r)}):
                    continue
                info.update(p=show(p), q=show(q), r=show(r))
                A, B, C = mk(p), mk(q), mk(r)
                rec = {"op": op, "p": P(p), "q": P(q), "r": P(r), "addl": T((A + B) + C), "addr": T(A + (B + C)),
                       "mull": T((A * B) * C), "mulr": T(A * (B * C)), "distl": T(A * (B + C)),
                       "distr": T(A * B + A * C)}
            elif op == "pow":
                if rng.random() < 0.5:
                    p = rand_poly(rng, 5, -4, 6)
                    n = rng.randint(0, 5)
                else:
                    # high exponents (every bit pattern up to 16) on small polynomials: p**n is the n-fold product
                    # whatever scheme computes it
                    pw = rng.sample(range(-2, 4), rng.choice([2, 2, 3]))
                    p = {k: Fraction(rng.choice([1, -1, 1, 2, -1])) for k in pw}
                    n = rng.randint(6, 16)
                while n > 0 and not fits_mul(*([p] * n)):
                    n -= 1
                info.update(p=show(p), n=n)
                rec = {"op": op, "p": P(p), "n": n, "out": T(mk(p) ** n)}
            elif op in ("eval", "hom"):
                v = rng.choice(vpool)
                p = rand_poly(rng, 8)
                q = rand_poly(rng, 6)
                while p and not fits_eval(p, v):
                    p.pop(max(p, key=abs))
                if op == "eval":
                    info.update(p=show(p), v=str(v))
                    A = mk(p)
                    rec = {"op": op, "p": P(p), "v": R(v), "auto": R(A(v)), "horner": R(A(v, horner=True)),
                           "sum": R(A(v, horner=False))}
                else:
                    while q and not fits_eval(q, v):
                        q.pop(max(q, key=abs))
                    if not fits_mul(p, q):
                        continue
                    pq = {}
                    for k1, c1 in p.items():
                        for k2, c2 in q.items():
                            pq[k1 + k2] = pq.get(k1 + k2, 0) + abs(c1 * c2)       # majorant, for the screen only
                    if not fits_eval(pq, v):
                        continue
                    info.update(p=show(p), q=show(q), v=str(v))
                    A, B = mk(p), mk(q)
                    rec = {"op": op, "p": P(p), "q": P(q), "v": R(v), "mulv": R((A * B)(v)), "addv": R((A + B)(v))}
            elif op == "compose":
                if rng.random() < 0.5:
                    p = rand_poly(rng, 4, 0, 4)
                    q = rand_poly(rng, 3, -2, 3)
                else:
                    p = rand_poly(rng, 5, -4, 5)
                    q = {rng.randint(-2, 3): F(rng.choice([-2, -1, 1, 2, 3]), rng.choice([1, 1, 2]))}
                if not fits_compose(p, q):
                    continue
                info.update(p=show(p), q=show(q))
                rec = {"op": op, "p": P(p), "q": P(q), "out": T(mk(p)(mk(q)))}
            elif op == "calc":
                p = rand_poly(rng, 8)
                n = rng.randint(0, 3)
                span = max([abs(k) for k in p] + [1]) + n
                if asum(p) * span ** n * lcmden(p.values()) ** 2 * span ** 2 * 2 >= LIMIT:
                    continue
                info.update(p=show(p), n=n)
                A = mk(p)
                rec = {"op": op, "p": P(p), "n": n, "diff": T(A.diff()), "diffn": T(A.diff(n)), "integ": [], "dinteg": []}
                if -1 not in p:                         # (a term that powers to -1 has no Laurent antiderivative)
                    rec["integ"] = T(A.integrate())
                    rec["dinteg"] = T(A.integrate().diff())
            else:
                n = rng.randint(1, 6)
                xs = rng.sample([F(k, 2) for k in range(-6, 9)] if rng.random() < 0.4 else [F(k) for k in range(-4, 6)], n)
                if n >= 4 and rng.random() < 0.5:
                    # abscissae that LOOK equally spaced from their ends (first step * (n-1) = span) but are not,
                    # sorted or not: the interpolator passes through its points whatever their spacing
                    x0, h = F(rng.randint(-3, 2)), F(rng.choice([1, 1, 2]), rng.choice([1, 2]))
                    inner = rng.sample([x0 + h * F(k, 2) for k in range(3, 2 * (n - 1)) if k % 2 or rng.random() < .3],
                                       n - 3) if 2 * (n - 1) - 3 >= n - 3 else []
                    if len(inner) == n - 3:
                        xs = [x0, x0 + h] + sorted(inner) + [x0 + h * (n - 1)]
                        if len(set(xs)) != n:
                            xs = rng.sample([F(k) for k in range(-4, 6)], n)
                        elif rng.random() < 0.3:
                            xs = xs[:2] + xs[2:][::-1]
                pts = [(a, F(rng.randint(-4, 4), rng.choice([1, 1, 2, 3]))) for a in xs]
                if not fits_lagrange(pts):
                    continue
                info.update(points=[[str(a), str(b)] for a, b in pts])
                try:
                    L = al.lagrange.poly(list(pts))
                    f = al.lagrange.func(list(pts))
                    at = [R(f(a)) for a, _ in pts]
                except Exception as ex:
                    ctx.count(1)
                    ctx.violation("C07:lagrange-single-point" if n == 1 else "C07:lagrange-raises",
                                  dict(info, raised="%s: %s" % (type(ex).__name__, str(ex)[:120])))
                    continue
                rec = {"op": "lag", "pts": [[R(a), R(b)] for a, b in pts], "poly": T(L), "at": at}
        except Bad as ex:
            ctx.count(1)
            ctx.violation("C07:%s" % op, dict(info, why=str(ex)))
            continue
        except Exception as ex:
            ctx.count(1)
            ctx.violation("C07:%s-raises" % op, dict(info, raised="%s: %s" % (type(ex).__name__, str(ex)[:160])))
            continue
        if not encodable(rec):
            # the operands were screened so that every value the specification can give stays below 2^28:
            # a logged number beyond 31 bits cannot be one of them (and JSON would mangle it)
            ctx.count(1)
            ctx.violation("C07:%s:magnitude" % op, dict(info, why="observed value outside the range of every specified "
                                                                   "value for these operands", record=str(rec)[:400]))
            continue
        recs.append(rec)
        meta.append(info)
        ctx.count(1, nontrivial_key=("m3", len(recs)))
    bad = tracecheck.run_records(ctx, "PolyTrace", {}, recs, what="C07 recorded Poly calls", chunk=500)
    diag = {i: c for i, c in bad.items() if c[0] in ("eq-model", "poly-model")}
    for i, c in sorted(diag.items())[:3]:
        ctx.log("diagnostic (not a violation): recorded call %s differs from the model on %s" % (meta[i - 1], c[0]))
    hard = {i: c for i, c in bad.items() if i not in diag}
    ctx.traces += len(recs) - len(hard)
    ctx.log("M3: %d recorded calls judged by TLC, %d rejected (%d diagnostics)" % (len(recs), len(hard), len(diag)))
    if meta:
        ctx.sample({"recorded": meta[0]})
    for i, c in sorted(hard.items()):
        ctx.violation("C07:%s:%s" % (recs[i - 1]["op"], c[0]), dict(meta[i - 1], clause=c[0], record=recs[i - 1]))


def check(ctx):
    al = common.import_audiolazy()
    ctx.rule = ("M2: every dumped state replayed through the construction routes; non-trivial = every operand "
                "has >= 2 terms (>= 2 points for lagrange); M3: every recorded call on random polynomials")
    ctx.assumptions = [
        "coefficients, evaluation points and interpolation points are exact rationals (Fraction / int)",
        "p(0) only for polynomials without negative powers (0 ** -k is not a value)",
        "p(q) with a negative power in p only for a one-term q (otherwise p o q is not a Laurent polynomial)",
        "exponents are integers 0..MaxExp (the property's quantifier); integrate() only without an x^-1 term",
        "abscissae of interpolation points are pairwise distinct",
        "== is only required to imply equal hashes and not-!=; '== holds for every pair of equal polynomials' "
        "and 'lagrange.poly is the least-degree interpolator' are logged as diagnostics only",
    ]
    if ctx.thorough:
        m2(ctx, al, "PolyC07_thorough.cfg")
        m3(ctx, al, 4000)
    else:
        m2(ctx, al, "PolyC07_quick.cfg")
        m3(ctx, al, 800)
    ctx.exhaustive = True
