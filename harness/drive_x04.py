"""X04 (extension check) - Poly as a value / container, and the value semantics of lazy_math.

Specification: spec/dsp/PolyVal.tla (constructor forms + "compact zeros", terms / values / order / is_* /
getitem on the ordered store, item assignment, zero setter, freeze by hash, copy vs Poly(p), PolyMeta's
operator table, the zero riding through + - * ** / diff integrate, __truediv__, __pow__ with negative / Poly /
float exponents, == / hash against numbers, calculus corner cases, x, lagrange's strategies) over
spec/dsp/Poly.tla; spec/dsp/MathVal.tla (branches of log / ln / log10 / log2 / log1p, factorial on limb lists,
dB10 / dB20, sign, absolute, cexp, phase, constants, __all__); spec/dsp/PolyMath.tla (one evaluator Eval / Def /
KindLaw over tagged cases); spec/dsp/PolyObj.tla (one object under any history of p[k] = v, zero changes, hash(),
copies).

M1  TLC: PolyMathGrid on the tier grid (invariants Refines: operational == definition layer; Laws), the
    sensitivity configuration NegPowRefuses = FALSE (the pinned code's `(x+1) ** -1 == x+1`) must VIOLATE them;
    PolyObj: full reachable graph with Refines / NoZeroStored / ViewsCoherent / FrozenIsFinal / CreationOrder.
M2  spec -> code: every dumped grid case replayed on the real objects through several construction routes and
    compared with the value TLC exported; every transition of the PolyObj graph replayed from a fresh object.
M3  code -> spec: seeded random larger cases and long random histories recorded from the real code and judged
    by TLC (spec/trace/PolyValTrace.tla) with the same operators.
"""
import math
import os
import re
from fractions import Fraction

import common
import graphcover
import tlaval
import tlc
import tracecheck
import x04_lib as L
from x04_lib import F, R, fr, Bad

PID = "X04"


# ------------------------------------------------------------------------------------------------ TLC value -> J-form
def jform(v, key=None):
    if isinstance(v, (bool, int, str)):
        return v if not isinstance(v, tlaval.Mv) else str(v)
    if key == "p":                                         # a polynomial of module Poly: function power -> Rat
        if isinstance(v, tuple):
            return [[i + 1, list(c)] for i, c in enumerate(v)]
        return sorted([int(k), list(c)] for k, c in v.items())
    if isinstance(v, tuple):
        return [jform(x) for x in v]
    if isinstance(v, (set, frozenset)):
        return sorted(jform(x) for x in v)
    if isinstance(v, dict):
        if all(isinstance(k, str) for k in v):
            return {k: jform(x, k) for k, x in v.items()}
        return sorted([jform(k), jform(x)] for k, x in v.items())
    raise tlc.MachineryError("cannot convert TLA+ value %r" % (v,))


def short(x, n=400):
    s = repr(x)
    return s if len(s) <= n else s[:n] + "..."


class Notes(object):
    """disagreements with the operational layer on something the documentation does not state: diagnostics"""
    def __init__(self, ctx):
        self.ctx = ctx
        self.seen = {}

    def note(self, what, detail):
        if what not in self.seen:
            self.seen[what] = 0
            self.ctx.log("note (not a violation): %s %s" % (what, short(detail, 300)))
        self.seen[what] += 1


def moves(data):
    """the data has an integer-valued float power (the library says nothing about the order then)"""
    return data["form"] == "dict" and any(it["fl"] and it["k"][1] == 1 for it in data["ps"])


# ------------------------------------------------------------------------------------------------ M2: one grid case
DOC_FIELDS = ["z", "srt", "rsrt", "len", "ispoly", "islaur", "order", "get", "empty"]


def replay_ctor(al, c, exp, variant, notes):
    obs = L.obs_ctor(al, c, variant)
    bad = []
    if c["data"]["form"] == "opaque":
        want = {"opaque": True, "len": 1, "ispoly": True, "islaur": True, "order": 0, "z": exp["z"]}
        for f in sorted(want):
            if obs[f] != want[f]:
                notes.note("Poly(%s) is not one opaque constant term" % c["data"]["what"], {f: obs[f]})
        return bad, obs
    pairs = lambda d: sorted(map(tuple, map(lambda t: (tuple(t[0]), tuple(t[1])), d)))
    if pairs(obs["d"]) != pairs(exp["d"]) or len(obs["d"]) != len(exp["d"]):
        bad.append(("terms", obs["d"], exp["d"]))
    for f in DOC_FIELDS:
        if obs[f] != exp[f]:
            bad.append((f, obs[f], exp[f]))
    if exp["d"] and obs["values"] != exp["values"]:
        bad.append(("values", obs["values"], exp["values"]))
    if not exp["d"] and obs["values"] != exp["values"]:
        notes.note("values() of the empty polynomial", obs["values"])
    ordered = not moves(c["data"])
    for f in ("raw", "rraw", "d"):
        if obs[f] != exp[f]:
            if ordered:
                bad.append(("creation-order:" + f, obs[f], exp[f]))
            else:
                notes.note("creation order with integer-valued float powers", {"case": c, f: obs[f], "model": exp[f]})
    for f, g in (("auto", "raw"), ("rauto", "rraw")):
        if exp["islaur"] or ordered:
            if obs[f] != exp[f]:
                bad.append((f, obs[f], exp[f]))
        elif obs[f] != obs[g]:
            bad.append((f, obs[f], obs[g]))
    if not obs["ktypes"]:
        bad.append(("key-types", obs["raw"], "ints for integer-valued powers, floats otherwise"))
    if not obs["callempty"]:
        bad.append(("call-empty", False, "the zero object itself"))
    return bad, obs


def cmp_pres(obs, exp, prefix=""):
    if obs["e"] != exp["e"]:
        return [(prefix + "exception", obs["e"], exp["e"])]
    if exp["e"] != "none":
        return []
    bad = []
    if obs["p"] != exp["p"]:
        bad.append((prefix + "terms", obs["p"], exp["p"]))
    if obs["z"] != exp["z"]:
        bad.append((prefix + "zero", obs["z"], exp["z"]))
    return bad


def neg_multi(c):
    n = c["n"]
    if n["k"] == "poly":
        if any(k != 0 for k, _ in n["p"]):
            return False
        ev = fr(dict((k, tuple(v)) for k, v in n["p"]).get(0, (0, 1)))
    else:
        ev = n["v"]
    return ev < 0 and len(c["a"]["p"]) > 1


def replay_case(al, kind, c, exp, variant, notes):
    """-> (list of (field, observed, expected), observed)"""
    if kind == "ctor":
        return replay_ctor(al, c, exp, variant, notes)
    if kind == "arith":
        obs = L.obs_arith(al, c, variant)
        return cmp_pres(obs, exp), obs
    if kind == "div":
        obs = L.obs_div(al, c, variant)
        if not c["rev"] and c["b"]["k"] == "num" and c["b"]["v"][0] == 0 and not c["a"]["p"]:
            if cmp_pres(obs, exp):
                notes.note("empty polynomial / 0", obs)
            return [], obs
        return cmp_pres(obs, exp), obs
    if kind == "pow":
        obs = L.obs_pow(al, c, variant)
        if neg_multi(c):
            # several terms have no inverse among the sums of powers: any refusal conforms, a value does not
            if obs["e"] == "none":
                return [("negative-multiterm", obs, "an exception (no Poly is the power)")], obs
            if obs["e"] != exp["e"]:
                notes.note("negative power of several terms refused with another class", obs["e"])
            return [], obs
        if not c["a"]["p"] and c["n"]["k"] == "int" and c["n"]["v"] < 0:
            if cmp_pres(obs, exp):
                notes.note("empty polynomial ** negative", obs)
            return [], obs
        return cmp_pres(obs, exp), obs
    if kind == "powf":
        obs = L.obs_powf(al, c, variant)
        bad = []
        if obs["key"] != exp["key"]:
            bad.append(("power", obs["key"], exp["key"]))
        if not obs["ktype"]:
            bad.append(("power-type", obs["key"], "int when integer-valued"))
        want = fr(exp["coef"])
        if exp["float"]:
            # v ** float leaves exact arithmetic (README float rule; distinct exact results differ by > 1e-6)
            if not obs["float"] or abs(obs["coef_float"] - float(want)) > 1e-9 * (1 + abs(float(want))):
                bad.append(("coefficient", obs["coef_float"], str(want)))
        elif obs["float"] or F(obs["coef_float"]) != want:
            bad.append(("coefficient", obs["coef_float"], "the kept %s" % want))
        return bad, obs
    if kind == "calc":
        obs = L.obs_calc(al, c, variant)
        if c["n"] < 0:
            if cmp_pres(obs["diffn"], exp["diffn"]):
                notes.note("diff(negative n)", obs["diffn"])
            return cmp_pres(obs["integ"], exp["integ"], "integrate-"), obs
        bad = cmp_pres(obs["diffn"], exp["diffn"], "diff-") + cmp_pres(obs["integ"], exp["integ"], "integrate-")
        if obs["diff1"] is not None:
            bad += cmp_pres(obs["diff1"], exp["diffn"], "diff-default-")
        return bad, obs
    if kind == "eqnum":
        obs = L.obs_eqnum(al, c, variant)
        bad = []
        for f, g in (("eq", "eq"), ("ne", "ne"), ("req", "eq"), ("rne", "ne")):
            if obs[f] != exp[g]:
                bad.append((f, obs[f], exp[g]))
        if c["b"]["k"] == "poly" and obs["eq"] and not obs["hashsame"]:
            bad.append(("hash", "equal polynomials, different hashes", "equal hashes"))
        if c["b"]["k"] == "num" and obs["eq"] and not obs.get("numhash", True):
            notes.note("a Poly equal to a number does not hash like it", c)
        return bad, obs
    if kind == "scopy":
        obs = L.obs_scopy(al, c, variant)
        if c["how"] == "copy":
            return [(f, obs[f], exp[f]) for f in ("new", "rest", "same") if obs[f] != exp[f]], obs
        if obs != exp:
            notes.note("Poly(p) with a Stream coefficient (model: the Stream object is shared)", {"case": c, "obs": obs})
        return [], obs
    if kind == "mutc":
        obs = L.obs_mutc(al, c, variant)
        bad = [(f, obs[f], exp[f]) for f in ("orig", "new") if obs[f] != exp[f]]
        if not obs["distinct"]:
            bad.append(("distinct-object", False, True))
        if not obs["ktypes"]:
            bad.append(("key-types", obs, "ints for integer-valued powers"))
        return bad, obs
    raise tlc.MachineryError("no replayer for kind %s" % kind)


# ---- single-case kinds (facts about the module) ----------------------------------------------------
def replay_optable(al, exp):
    bad = []
    Poly = al.Poly
    ops = list(al.OpMethod.get("all"))
    have = sorted(op.name for op in ops if op.dname in vars(Poly))
    if have != exp["ops"]:
        bad.append(("operators", have, exp["ops"]))
    if sorted(op.name for op in ops) != sorted(exp["ops"] + exp["refused"]):
        bad.append(("OpMethod rows", sorted(op.name for op in ops), sorted(exp["ops"] + exp["refused"])))
    p = al.x + 1
    for op in ops:
        # behaviour: a refused operator is a TypeError of the interpreter, an existing one is not
        try:
            if op.arity == 1:
                op.func(p)
            elif op.rev:
                op.func(3, p)
            else:
                op.func(p, 3)
            outcome = "works"
        except TypeError:
            outcome = "TypeError"
        except Exception as ex:
            outcome = type(ex).__name__
        want = "works" if op.name in exp["ops"] else "TypeError"
        if outcome != want:
            bad.append(("operator " + op.dname, outcome, want))
    for d in exp["container"]:
        if d not in vars(Poly):
            bad.append(("container", d + " missing", "defined by the class"))
    for d in exp["absent"]:
        if d in vars(Poly):
            bad.append(("container", d + " defined", "not defined by the class"))
    for n in exp["classdef"]:
        f = vars(Poly).get("__%s__" % n)
        if f is None or getattr(f, "__qualname__", "").split(".")[0] != "Poly":
            bad.append(("class-defined", n, "written in the class body"))
    return bad


def replay_xobj(al, exp):
    bad = []
    x = al.x
    if L.ppairs(x) != exp["p"] or L.jzero(x.zero) != exp["z"]:
        bad.append(("x", [L.ppairs(x), L.jzero(x.zero)], [exp["p"], exp["z"]]))
    if x.order != exp["order"] or x is not al.lazy_poly.x:
        bad.append(("x.order", x.order, exp["order"]))
    for v, want in exp["at"]:
        for val in (fr(v), float(fr(v))):
            if x(val) != fr(want):
                bad.append(("x(v)", x(val), want))
    return bad


def replay_lagnames(al, exp):
    bad = []
    lg = al.lagrange
    keys = [k for t in lg.keys() for k in t]
    if keys != exp["keys"]:
        bad.append(("strategies", keys, exp["keys"]))
    if lg.default is not getattr(lg, exp["default"], None):
        bad.append(("default", getattr(lg.default, "__name__", None), exp["default"]))
    if lg.__name__ != exp["name"]:
        bad.append(("name", lg.__name__, exp["name"]))
    pts = [(F(0), F(1)), (F(1), F(1, 2)), (F(2), F(-1))]
    for t in (F(-1), F(1, 2), F(3)):
        if lg(pts)(t) != lg.func(pts)(t) or lg.poly(pts)(t) != lg.func(pts)(t):
            bad.append(("strategies agree", [str(lg.poly(pts)(t)), str(lg.func(pts)(t))], "equal"))
    return bad


def replay_consts(al, exp):
    bad = []
    lm = al.lazy_math
    for name, ref in (("pi", math.pi), ("e", math.e)):
        v = getattr(lm, name)
        if not L.same_value(v, ref) or int(v * 10 ** 6) != exp[name]["micro"] or getattr(al, name) is not v:
            bad.append((name, repr(v), exp[name]))
    if not (isinstance(lm.inf, float) and lm.inf > 0 and math.isinf(lm.inf)):
        bad.append(("inf", repr(lm.inf), "float +inf"))
    if not (isinstance(lm.nan, float) and lm.nan != lm.nan):
        bad.append(("nan", repr(lm.nan), "float nan"))
    return bad


def replay_mathall(al, exp):
    bad = []
    lm = al.lazy_math
    if list(lm.__all__) != exp["names"]:
        bad.append(("__all__", list(lm.__all__), exp["names"]))
    for n in exp["names"]:
        if not hasattr(lm, n) or getattr(al, n, None) is not getattr(lm, n, None):
            bad.append(("exported", n, "an attribute of lazy_math and of the package"))
    import cmath
    mods = {"math": math, "cmath": cmath, "builtins": __builtins__ if isinstance(__builtins__, dict) else vars(__builtins__)}
    for n, target in sorted(exp["wraps"].items()):
        mod, fn = target.split(".")
        ref = mods[mod][fn] if isinstance(mods[mod], dict) else getattr(mods[mod], fn)
        w = getattr(lm, n, None)
        if w is None or w.__name__ != ref.__name__ or w.__doc__ != ref.__doc__:
            bad.append(("wrapper " + n, [getattr(w, "__name__", None), (getattr(w, "__doc__", "") or "")[:40]],
                        [ref.__name__, (ref.__doc__ or "")[:40]]))
    for a, b in exp["aliases"].items():
        if getattr(lm, a) is not getattr(lm, b):
            bad.append(("alias " + a, "another object", b))
    for n in exp["consts"]:
        if not isinstance(getattr(lm, n), float):
            bad.append(("constant " + n, type(getattr(lm, n)).__name__, "float"))
    return bad


# ---- lazy_math ---------------------------------------------------------------------------------------
def replay_math(al, kind, c, exp, variant, notes):
    cc = dict(c, _kw=variant)
    got = L.math_call(al, kind, cc)
    want = L.expected_of(exp)
    bad = []
    if got[0] != want[0]:
        bad.append(("outcome", got, want))
    elif got[0] == "raise":
        if got[1] != want[1]:
            bad.append(("exception", got[1], want[1]))
    else:
        v, w = got[1], want[1]
        if exp["r"] == "big":
            if isinstance(v, bool) or not isinstance(v, int) or v != w:
                bad.append(("value", v, w))
        elif not L.same_value(v, w):
            bad.append(("value", repr(v), repr(w)))
        if "ex" in exp and not (type(v) is type(L.ex_value(exp["ex"])) and v == L.ex_value(exp["ex"])):   # (-0.0 is 0)
            bad.append(("exact-value", repr(v), repr(L.ex_value(exp["ex"]))))
        if "alt" in exp:
            a = L.LIBFN[exp["alt"]["fn"]](*[L.pyarg(x) for x in exp["alt"]["args"]])
            if not L.same_value(v, a):
                bad.append(("relation", repr(v), "%s = %r" % (exp["alt"]["fn"], a)))
    return bad, got


SINGLE = {"optable": replay_optable, "xobj": replay_xobj, "lagnames": replay_lagnames, "consts": replay_consts,
          "mathall": replay_mathall}
MATH = ("log", "log10", "log2", "log1p", "fact", "db", "sign", "abs", "cexp", "phase")


def vkey(kind, field):
    if kind == "pow" and field == "negative-multiterm":
        return "X04:pow-negative-multiterm"
    return "X04:%s:%s" % (kind, field.split(":")[0])


def nontrivial(kind, c):
    if kind in ("arith", "div", "pow", "calc", "eqnum"):
        return len(c["a"]["p"]) >= 2
    if kind == "ctor":
        return c["data"]["form"] in ("dict", "list", "poly") and len(c["data"].get("ps", c["data"].get("s", [1, 1]))) >= 2
    return kind not in SINGLE


def m2_grid(ctx, al, module, cfg, notes):
    d = tlc.scratch_dir("x04")
    dump = os.path.join(d, "states")
    r = tlc.require_ok(tlc.run(module, cfg, dump=dump, timeout=2400), module, need_actions=("Pick", "Evaluate"))
    ctx.add_tlc(r, "PolyMathGrid: operational layer == definition layer + per-kind laws on the X04 grid")
    ctx.log("M1 grid: TLC %d distinct states in %.1fs" % (r.distinct, r.wall))
    nstates = ncases = 0
    kinds = {}
    for st in tlaval.read_dump(dump + ".dump"):
        nstates += 1
        if st["phase"] != "done":
            continue
        ncases += 1
        kind = st["kind"]
        kinds[kind] = kinds.get(kind, 0) + 1
        c, exp = jform(st["case"]), jform(st["out"])
        variants = (ncases % 8, (ncases // 8 + 1 + ncases) % 8) if kind not in SINGLE else (0,)
        for variant in sorted(set(variants)):
            try:
                if kind in SINGLE:
                    bad, obs = SINGLE[kind](al, exp), None
                elif kind in MATH:
                    bad, obs = replay_math(al, kind, c, exp, variant, notes)
                else:
                    bad, obs = replay_case(al, kind, c, exp, variant, notes)
            except Bad as ex:
                bad, obs = [("observation", str(ex), "a value of the specification's value space")], None
            except Exception as ex:
                bad, obs = [("raises", "%s: %s" % (type(ex).__name__, str(ex)[:160]), exp)], None
            ctx.count(1, nontrivial_key=(kind, ncases) if nontrivial(kind, c) else None)
            for field, got, want in bad:
                ctx.violation(vkey(kind, field), {"kind": kind, "case": c, "variant": variant, "field": field,
                                                  "observed": short(got), "specified": short(want)})
        if kinds[kind] == 3 or ncases % 1501 == 0:
            ctx.sample({"kind": kind, "case": c, "spec_value": short(exp, 300)})
    if nstates != r.distinct:
        raise tlc.MachineryError("dump has %d states, TLC reported %d" % (nstates, r.distinct))
    ctx.traces += ncases
    ctx.log("M2 grid: %d cases replayed (%s)" % (ncases, ", ".join("%s %d" % kv for kv in sorted(kinds.items()))))


def sensitivity(ctx, module, cfg):
    """the pinned code's negative power of several terms, kept in the model as a switch, must break the laws"""
    r = tlc.run(module, cfg, timeout=1200, coverage=False)
    if r.violated not in ("Refines", "Laws"):
        raise tlc.MachineryError("sensitivity run %s did not violate Refines / Laws (violated=%s rc=%s)\n%s" %
                                 (cfg, r.violated, r.rc, "\n".join(r.out.splitlines()[-30:])))
    ctx.log("M1 sensitivity: NegPowRefuses = FALSE violates %s as it must (%.1fs)" % (r.violated, r.wall))


# ------------------------------------------------------------------------------------------------ M2: object graph
_RE_COV2 = re.compile(r"^<(\w+) line \d+, col \d+ to line \d+, col \d+ of module (\w+)(?: \([\d ]+\))?>: (\d+):(\d+)", re.M)


def project(P):
    return {"d": L.pairs_of(P), "z": L.jzero(P.zero)}


class ObjRig(object):
    """one real Poly driven by the actions of PolyObj"""
    def __init__(self, al, z):
        self.al = al
        self.P = al.Poly(zero=L.zobj(z))

    def apply(self, name, args, variant=0):
        P = self.P
        try:
            if name == "SetItem":
                (k, fl), c = args
                P[L.pykey(list(k), fl)] = L.pycoef(list(c), variant)
            elif name == "SetZero":
                P.zero = L.zobj(jform(args[0]))
            elif name == "Hash":
                hash(P)
            elif name == "Copy":
                self.P = P.copy() if args[0] == "copy" else self.al.Poly(P)
                if self.P is P:
                    return "same-object"
            else:
                raise tlc.MachineryError("unknown action %s" % name)
            return "none"
        except TypeError:
            return "TypeError"


def replay_graph(ctx, al, cfg):
    d = tlc.scratch_dir("x04g")
    dot = os.path.join(d, "g.dot")
    r = tlc.run("PolyObj", cfg, dump_dot=dot, timeout=2400)
    tlc.require_ok(r, "PolyObj")
    cov = {m.group(1): int(m.group(4)) for m in _RE_COV2.finditer(r.out)}
    for a in ("SetItem", "SetZero", "Hash", "Copy"):
        if not cov.get(a):
            raise tlc.MachineryError("PolyObj: action %s never taken (vacuous)" % a)
    ctx.add_tlc(r, "PolyObj full reachable graph (%s)" % cfg)
    nodes, inits, edges = tlaval.read_dot(dot)
    if len(nodes) != r.distinct:
        raise tlc.MachineryError("dot dump has %d nodes, TLC reported %d" % (len(nodes), r.distinct))
    parent, order, out = graphcover.cover(inits, edges)
    if len(parent) != len(nodes):
        raise tlc.MachineryError("state graph not connected from Init")
    labels = [tlaval.parse_label(e[2]) for e in edges]
    ctx.log("M1 PolyObj: %d states, %d transitions to replay (%.1fs)" % (len(nodes), len(edges), r.wall))

    def root_of(n):
        while parent[n] is not None:
            n = parent[n][0]
        return n
    for ei, (src, dst, lab) in enumerate(edges):
        path = graphcover.path_to(parent, src) + [ei]
        rig = ObjRig(al, jform(nodes[root_of(src)]["obj"])["z"])
        outcome = None
        try:
            for step, pi in enumerate(path):
                outcome = rig.apply(labels[pi][0], labels[pi][1], ei + step)
            got = project(rig.P)
            sh = L.show(rig.P, ei)
        except Bad as ex:
            ctx.violation("X04:obj:observation", {"history": [edges[pi][2] for pi in path], "why": str(ex)})
            continue
        st = nodes[dst]
        exp = jform(st["obj"])
        hist = [edges[pi][2] for pi in path]
        ctx.count(1, nontrivial_key=("obj", ei) if len(path) >= 2 else None)
        if ei % 5003 == 0:
            ctx.sample({"history": hist, "object": got})
        bad = [f for f in ("d", "z") if got[f] != exp[f]]
        if outcome != st["res"]:
            bad.append("outcome")
        cf = sorted(jform(st["cf"]))
        if sorted(sh["raw"]) != cf or sh["len"] != len(cf) or not sh["ktypes"]:
            bad.append("views")
        if bad:
            ctx.violation("X04:obj:%s:%s" % (labels[ei][0], bad[0]),
                          {"history": hist, "specified": exp, "observed": got, "specified_outcome": st["res"],
                           "outcome": outcome, "differs": bad})
    ctx.traces += len(edges)


# ------------------------------------------------------------------------------------------------ M3
LIMIT = 1 << 27


def rnd_rat(rng, dens=(1, 1, 1, 2, 3, 4)):
    return F(rng.choice([-7, -5, -4, -3, -2, -1, 1, 2, 3, 4, 5, 6]), rng.choice(dens))


def rnd_poly(rng, maxterms, lo=-4, hi=6):
    n = rng.randint(0, maxterms)
    ks = sorted(rng.sample(range(lo, hi + 1), min(n, hi - lo + 1)))
    return [[k, R(rnd_rat(rng))] for k in ks]


def rnd_zero(rng, plain=True):
    return rng.choice([{"v": [0, 1], "ty": "float"}, {"v": [0, 1], "ty": "int"}, {"v": [0, 1], "ty": "frac"}] +
                      ([] if plain else [{"v": [2, 1], "ty": "int"}, {"v": [1, 2], "ty": "float"}]))


def rnd_pv(rng, maxterms, lo=-4, hi=6):
    return {"p": rnd_poly(rng, maxterms, lo, hi), "z": rnd_zero(rng)}


def rnd_operand(rng, maxterms):
    if rng.random() < 0.35:
        return {"k": "num", "v": R(rng.choice([F(0), rnd_rat(rng), rnd_rat(rng)]))}
    return dict(rnd_pv(rng, maxterms), k="poly")


def rnd_items(rng, n, zv):
    pool = [F(k) for k in range(-4, 7)] + [F(1, 2), F(3, 2), F(-1, 2), F(5, 2), F(9, 4)]
    ks = rng.sample(pool, n)
    out = []
    for k in ks:
        fl = k.denominator != 1 or rng.random() < 0.3
        c = rng.choice([rnd_rat(rng), rnd_rat(rng), zv, F(0), F(2)])
        out.append({"k": R(k), "fl": fl, "c": R(c)})
    return out


def rnd_obj(rng, n):
    z = rnd_zero(rng, plain=False)
    zv = fr(z["v"])
    its = [it for it in rnd_items(rng, n, zv) if fr(it["c"]) != zv]
    return {"d": [[it["k"], it["c"]] for it in its], "z": z}


def magnitude(p):
    return sum(abs(fr(c)) for _, c in p) or F(1), math.lcm(*([fr(c).denominator for _, c in p] or [1]))


def fits_product(ps):
    s, dd = F(1), 1
    for p in ps:
        m, d = magnitude(p)
        s *= max(m, 1)
        dd *= d
    return 4 * s * dd * dd < LIMIT


def rnd_num(rng, cplx=True, special=True):
    c = rng.random()
    if c < 0.3:
        return {"t": "int", "v": R(rng.choice([0, 1, -1, rng.randint(-50, 50), rng.randint(-10 ** 6, 10 ** 6), 10 ** rng.randint(0, 6)]))}
    if c < 0.55:
        return {"t": "float", "v": R(F(rng.randint(-4096, 4096), 2 ** rng.randint(0, 10)))}
    if c < 0.7:
        return {"t": "frac", "v": R(F(rng.randint(-60, 60), rng.randint(1, 12)))}
    if c < 0.75:
        return {"t": "bool", "v": R(rng.randint(0, 1))}
    if c < 0.92 and cplx:
        return {"t": "complex", "re": R(F(rng.randint(-12, 12), rng.choice([1, 2, 4]))),
                "im": R(F(rng.randint(-12, 12), rng.choice([1, 2, 4])))}
    if special:
        return {"t": "special", "s": rng.choice(["inf", "-inf", "nan", "-0.0"])}
    return {"t": "int", "v": R(rng.randint(-9, 9))}


def obs_math_record(al, kind, c):
    """the logged result of a lazy_math call: r, e, t, exact, matches, limbs, pimult"""
    got = L.math_call(al, kind, c)
    out = {"r": got[0], "e": "", "t": "", "exact": [0, 0], "matches": [], "limbs": [], "pimult": [0, 0]}
    x = L.pynum(c["x"])
    b = L.pynum(c["b"]["b"]) if kind == "log" and c["b"]["given"] else (10 if kind == "log10" else 2 if kind == "log2" else None)
    if got[0] == "raise":
        out["e"] = got[1]
        out["matches"] = L.matches(None, x, b, raised=got[1])      # library calls that raise the same class
        return out
    v = got[1]
    out["t"] = L.tyof(v)
    if isinstance(v, float) and v == -L.INF:
        out["r"] = "ninf"
    out["matches"] = L.matches(v, x, b)
    if isinstance(v, int) and not isinstance(v, bool) and kind == "fact":
        out["limbs"] = L.limbs_of(v)
    ex = None
    if isinstance(v, (int, float, Fraction)) and not isinstance(v, bool) and v == v and abs(v) != L.INF:
        ex = F(v)
    elif isinstance(v, complex) and v.imag == 0 and v.real == v.real and abs(v.real) != L.INF:
        ex = F(v.real)
    if ex is not None and abs(ex.numerator) < LIMIT and ex.denominator < LIMIT:
        out["exact"] = R(ex)
    if isinstance(v, float):
        for m in (F(0), F(1), F(1, 2), F(-1, 2), F(-1)):
            if L.same_value(v, float(m) * math.pi if m != 0 else 0.0):
                out["pimult"] = R(m)
    return out


def m3_records(ctx, al, count, notes):
    rng = ctx.rng
    recs, meta = [], []
    kinds = ["ctor", "ctor", "arith", "arith", "div", "pow", "powf", "calc", "eqnum", "scopy", "mutc",
             "log", "log", "log10", "log2", "log1p", "fact", "db", "sign", "abs", "cexp", "phase"]
    tries = 0
    while len(recs) < count and tries < count * 30:
        tries += 1
        kind = rng.choice(kinds)
        variant = rng.randrange(8)
        try:
            if kind == "ctor":
                za = rng.choice([{"given": False}, {"given": True, "z": rnd_zero(rng, plain=False)}])
                zv = fr(za["z"]["v"]) if za["given"] else F(0)
                form = rng.choice(["dict", "dict", "dict", "list", "poly", "num", "none"])
                if form == "dict":
                    data = {"form": "dict", "ps": rnd_items(rng, rng.randint(0, 8), zv)}
                elif form == "list":
                    data = {"form": "list", "s": [R(rng.choice([rnd_rat(rng), F(0), zv])) for _ in range(rng.randint(0, 9))]}
                elif form == "poly":
                    data = {"form": "poly", "o": rnd_obj(rng, rng.randint(0, 6))}
                elif form == "num":
                    data = {"form": "num", "v": R(rng.choice([rnd_rat(rng), F(0), zv]))}
                else:
                    data = {"form": "none"}
                c = {"data": data, "zarg": za}
                out = L.obs_ctor(al, c, variant)
            elif kind == "arith":
                op = rng.choice(["add", "sub", "mul", "radd", "rsub", "rmul", "neg", "pos", "compose"])
                a = rnd_pv(rng, 6)
                if op == "compose":
                    a = rnd_pv(rng, 3, 0, 3)
                    b = dict(rnd_pv(rng, 2, -1, 2), k="poly")
                    if not fits_product([b["p"]] * 3 + [a["p"]]):
                        continue
                    c = {"op": op, "a": a, "b": b}
                    recs.append({"kind": kind, "c": c, "out": L.obs_arith(al, c, variant)})
                    meta.append({"kind": kind, "case": c, "variant": variant})
                    ctx.count(1, nontrivial_key=("m3", len(recs)))
                    continue
                if op in ("neg", "pos"):
                    b = {"k": "num", "v": [0, 1]}
                elif op[0] == "r":
                    b = {"k": "num", "v": R(rng.choice([F(0), rnd_rat(rng)]))}
                else:
                    b = rnd_operand(rng, 6)
                    if rng.random() < 0.1 and b["k"] == "poly":
                        b = dict(b, p=[[k, R(-fr(v))] for k, v in a["p"]])          # cancellation to nothing
                if not fits_product([a["p"], b.get("p", [[0, b.get("v", [1, 1])]])]):
                    continue
                c = {"op": op, "a": a, "b": b}
                out = L.obs_arith(al, c, variant)
            elif kind == "div":
                a = rnd_pv(rng, 7)
                r = rng.random()
                if r < 0.3:
                    b = {"k": "num", "v": R(rng.choice([F(0), rnd_rat(rng), rnd_rat(rng)]))}
                elif r < 0.7:
                    b = {"k": "poly", "p": [[rng.randint(-5, 5), R(rnd_rat(rng))]], "z": rnd_zero(rng)}
                else:
                    b = dict(rnd_pv(rng, 4), k="poly")
                rev = b["k"] == "num" and rng.random() < 0.3
                if not fits_product([a["p"], [[0, R(1 / fr(cc))] for _, cc in b.get("p", [[0, b.get("v")]]) if fr(cc) != 0] or [[0, [1, 1]]]]):
                    continue
                c = {"rev": rev, "a": a, "b": b}
                out = L.obs_div(al, c, variant)
            elif kind == "pow":
                a = rnd_pv(rng, 4, -3, 4)
                if rng.random() < 0.4:
                    a["p"] = a["p"][:1]
                if rng.random() < 0.8:
                    n = {"k": "int", "v": rng.randint(-5, 5)}
                    ev = n["v"]
                else:
                    ep = rng.choice([[], [[0, [rng.randint(-3, 4), 1]]], [[1, [1, 1]]], [[0, [2, 1]], [2, [1, 1]]]])
                    n = {"k": "poly", "p": ep}
                    ev = dict((k, v[0]) for k, v in ep).get(0, 0)
                inv = [[k, R(1 / fr(cc))] for k, cc in a["p"]] if ev < 0 else a["p"]
                if not fits_product([inv] * max(abs(ev), 1)):
                    continue
                c = {"a": a, "n": n}
                out = L.obs_pow(al, c, variant)
            elif kind == "powf":
                q = rng.choice([1, 2, 2, 4])           # dyadic exponents only: k * float(e) must be exact
                root = F(rng.randint(1, 12), rng.randint(1, 12))
                e = F(rng.choice([-3, -2, -1, 1, 2, 3, 5]), q)
                if rng.random() < 0.2:
                    e = F(rng.choice([-2, -1, 2, 3]))                                # an integer-valued float exponent
                big = max(root.numerator, root.denominator)
                if big ** e.denominator > 10 ** 6 or abs(e.numerator) * math.log(big) > 13:
                    continue
                c = {"k": rng.randint(-4, 6), "c": R(rng.choice([F(1), root ** e.denominator])), "e": R(e)}
                out = L.obs_powf(al, c, variant)
            elif kind == "calc":
                a = rnd_pv(rng, 7, -5, 8)
                n = rng.randint(0, 4)
                if not fits_product([a["p"], [[0, [9 ** max(n, 1), 1]]]]):
                    continue
                c = {"a": a, "n": n}
                out = L.obs_calc(al, c, variant)
                out.pop("diff1")
            elif kind == "eqnum":
                a = rnd_pv(rng, 5)
                r = rng.random()
                if r < 0.3:
                    b = dict(a, k="poly", z=rnd_zero(rng, plain=rng.random() < 0.8))
                elif r < 0.5 and len(a["p"]) <= 1:
                    b = {"k": "num", "v": (a["p"][0][1] if a["p"] and a["p"][0][0] == 0 else [0, 1])}
                else:
                    b = rnd_operand(rng, 5)
                c = {"a": a, "b": b}
                out = L.obs_eqnum(al, c, variant)
                out.pop("numhash", None)
            elif kind == "scopy":
                s = [rng.randint(-9, 9) for _ in range(rng.randint(0, 12))]
                c = {"s": s, "n": rng.randint(0, len(s)), "m": rng.randint(0, 14), "how": rng.choice(["copy", "copy", "ctor"])}
                out = L.obs_scopy(al, c, variant)
            elif kind == "mutc":
                o = rnd_obj(rng, rng.randint(0, 6))
                it = rnd_items(rng, 1, fr(o["z"]["v"]))[0]
                if o["d"] and rng.random() < 0.5:
                    it["k"] = rng.choice(o["d"])[0]
                    it["fl"] = it["k"][1] != 1 or rng.random() < 0.5
                c = {"o": o, "zarg": rng.choice([{"given": False}, {"given": True, "z": rnd_zero(rng, plain=False)}]),
                     "it": it, "target": rng.choice(["new", "orig"])}
                out = L.obs_mutc(al, c, variant)
            elif kind == "log":
                x = rnd_num(rng)
                if rng.random() < 0.5:
                    b = {"given": False}
                else:
                    b = {"given": True, "b": rnd_num(rng, cplx=False)}
                c = {"x": x, "b": b, "_kw": variant}
                out = obs_math_record(al, kind, c)
                c.pop("_kw")
            elif kind == "fact":
                r = rng.random()
                if r < 0.6:
                    x = {"t": "int", "v": R(rng.randint(-5, 160))}
                elif r < 0.8:
                    x = {"t": "float", "v": R(F(rng.randint(-4, 60), rng.choice([1, 1, 2])))}
                else:
                    x = rnd_num(rng)
                    if x["t"] in ("int", "float") and abs(fr(x["v"])) > 200:       # 10^6! is not a test of anything
                        continue
                c = {"x": x}
                out = obs_math_record(al, kind, c)
            elif kind == "db":
                c = {"k": rng.choice([10, 20]), "x": rnd_num(rng)}
                out = obs_math_record(al, kind, c)
            else:
                c = {"x": rnd_num(rng)}
                out = obs_math_record(al, kind, c)
        except Bad as ex:
            ctx.count(1)
            ctx.violation("X04:%s:observation" % kind, {"kind": kind, "why": str(ex)})
            continue
        except Exception as ex:
            ctx.count(1)
            ctx.violation("X04:%s:raises" % kind, {"kind": kind, "raised": "%s: %s" % (type(ex).__name__, str(ex)[:200])})
            continue
        if not encodable(c) or not encodable(out):
            continue
        recs.append({"kind": kind, "c": c, "out": out})
        meta.append({"kind": kind, "case": c, "variant": variant})
        ctx.count(1, nontrivial_key=("m3", len(recs)))
    bad = tracecheck.run_records(ctx, "PolyValTrace", {"NegPowRefuses": "TRUE"}, recs, extra_data={"traces": []},
                                 what="X04 recorded calls judged by TLC", chunk=600)
    nhard = 0
    for i, cl in sorted(bad.items()):
        clause = cl[0]
        m = meta[i - 1]
        if clause.startswith("model-"):
            notes.note("recorded %s call differs from the operational layer beyond the documentation (%s)" % (m["kind"], clause),
                       {"case": m["case"], "observed": recs[i - 1]["out"]})
            continue
        nhard += 1
        key = "X04:pow-negative-multiterm" if clause == "negative-multiterm" else "X04:%s:%s" % (m["kind"], clause)
        ctx.violation(key, dict(m, clause=clause, observed=short(recs[i - 1]["out"])))
    ctx.traces += len(recs) - nhard
    if meta:
        ctx.sample({"recorded": meta[0]})
    ctx.log("M3: %d recorded calls judged by TLC, %d rejected" % (len(recs), nhard))


def encodable(x):
    if isinstance(x, bool):
        return True
    if isinstance(x, int):
        return abs(x) < (1 << 30)
    if isinstance(x, float):
        return False
    if isinstance(x, (list, tuple)):
        return all(encodable(y) for y in x)
    if isinstance(x, dict):
        return all(encodable(y) for k, y in x.items() if k != "coef_float")
    return True


def record_walk(ctx, al, length):
    rng = ctx.rng
    z0 = rnd_zero(rng, plain=False)
    rig = ObjRig(al, z0)
    keys = [F(k) for k in range(-3, 6)] + [F(1, 2), F(3, 2), F(-5, 2)]
    vals = [F(0), F(1), F(2), F(-1), F(1, 2), F(-3, 4), F(5)]
    events = []
    for step in range(length):
        c = rng.random()
        if c < 0.66:
            k = rng.choice(keys)
            fl = k.denominator != 1 or rng.random() < 0.35
            v = rng.choice(vals)
            ev = {"op": "set", "k": R(k), "fl": fl, "c": R(v)}
            res = rig.apply("SetItem", ((tuple(R(k)), fl), tuple(R(v))), rng.randrange(2))
        elif c < 0.76:
            z = rnd_zero(rng, plain=False)
            ev = {"op": "zero", "z": z}
            try:
                rig.P.zero = L.zobj(z)
                res = "none"
            except TypeError:
                res = "TypeError"
        elif c < 0.84:
            ev = {"op": "hash"}
            res = rig.apply("Hash", ())
        else:
            how = rng.choice(["copy", "ctor"])
            ev = {"op": how}
            res = rig.apply("Copy", (how,))
        P = rig.P
        try:
            order = {"e": "none", "v": P.order}
        except AttributeError:
            order = {"e": "AttributeError", "v": 0}
        ev.update({"res": res, "raw": L.pairs_of(P), "zero": L.jzero(P.zero),
                   "srt": [[R(F(k)), R(L.exact(v))] for k, v in P.terms(sort=True)], "len": len(P), "order": order,
                   "islaur": P.is_laurent(), "ktypes": all(L.key_ok(k) for k, _ in P.terms(sort=False))})
        events.append(ev)
    return {"z0": z0, "events": events}


def m3_walks(ctx, al, nwalks, length, batch=100):
    """one TLC run per batch of histories (the deserialised JSON of a batch stays well inside the heap)"""
    for off in range(0, nwalks, batch):
        traces = []
        for _ in range(min(batch, nwalks - off)):
            try:
                traces.append(record_walk(ctx, al, length))
            except Bad as ex:
                ctx.violation("X04:obj:observation", {"why": str(ex)})
        if not traces:
            continue
        acc, rej = tracecheck.run_traces(ctx, "PolyValTrace", {"NegPowRefuses": "TRUE"}, traces,
                                         invariants=("Accepted", "StoreCoherent"), extra_data={"recs": []},
                                         what="X04 recorded object histories")
        ctx.traces += len(acc)
        ctx.count(len(traces) * length)
        ctx.nontrivial_count += len(acc)
        if off == 0:
            ctx.sample({"recorded_history_prefix": traces[0]["events"][:2]})
        ctx.log("M3: %d histories of %d calls: %d accepted, %d rejected" % (len(traces), length, len(acc), len(rej)))
        for tid, v in sorted(rej.items()):
            l, clause = v[0], v[1]
            tr = traces[tid - 1]
            ctx.violation("X04:obj-trace:%s" % clause, {"rejected_at_event": l, "failing_clause": clause, "z0": tr["z0"],
                                                        "events_up_to_rejection": tr["events"][max(0, l - 3):l]})


# ------------------------------------------------------------------------------------------------
def check(ctx):
    al = common.import_audiolazy()
    notes = Notes(ctx)
    ctx.rule = ("M2: every dumped grid case replayed through 2 of 8 construction variants, every transition of the "
                "PolyObj graph from a fresh object; non-trivial = an operand with >= 2 terms / a dict or list of >= 2 "
                "items / every lazy_math case / a history of >= 2 calls; M3: every recorded call and history")
    ctx.assumptions = [
        "coefficients are exact rationals (Fraction, or int where the operation stays exact); powers are ints or floats",
        "the keys of one dict are numerically distinct; zero values are numbers (0, 0.0, Fraction(0), and non-zero "
        "'zeros' only for the container views)",
        "the `zero` contract (the zero of self rides through every operator; Poly(p) keeps p's zero) is taken from the "
        "comments of the code and the repository's own tests - the docstrings are silent about it",
        "creation order of terms() is demanded only for data without integer-valued float powers (their re-insertion "
        "as ints at the end of the store is logged as a note); values() of the empty polynomial is left open",
        "p / 0 for the empty p, empty ** negative, diff(n < 0), Poly(tuple | generator | str), Poly(p) sharing a Stream "
        "coefficient and hash(Poly(c)) != hash(c) are operational only (notes, never violations)",
        "a negative power of a polynomial of several terms must not return a value (no sum of powers is that power); "
        "any exception class conforms",
        "float exponents only on one-term polynomials whose coefficient has an exact root (README float rule 1e-9)",
        "transcendental lazy_math values are compared bit for bit with the library call the specification names "
        "(math.log / cmath.log / math.log1p / math.log10 / cmath.exp / cmath.phase); TLC decides branch, exception "
        "class, exact values (factorial limbs, sign, abs, powers of ten, axes) only",
    ]
    q = not ctx.thorough
    m2_grid(ctx, al, "PolyMathX04Q" if q else "PolyMathX04T", "PolyMathX04Q.cfg" if q else "PolyMathX04T.cfg", notes)
    sensitivity(ctx, "PolyMathX04Q", "PolyMathX04Q_sens.cfg")
    replay_graph(ctx, al, "PolyObj.cfg" if q else "PolyObj_thorough.cfg")
    m3_records(ctx, al, 1200 if q else 9000, notes)
    m3_walks(ctx, al, 40 if q else 300, 120 if q else 200)
    for what, n in sorted(notes.seen.items()):
        ctx.log("note total: %s x%d" % (what, n))
    ctx.extra["notes"] = dict(notes.seen)
    ctx.exhaustive = True
