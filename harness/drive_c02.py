"""C02 - everything is lazy: no read before demand, bounded read per output.

M1  TLC: spec/stream/Lazy.tla on the LazyC02 grid - the reading loop of every read-pattern class against the
    closed form Need(k): NoReadAtConstruction, BoundedRead, TightRead (Need is not loose), Monotone (so the
    bound composes along chains), EndlessOK.
M2  spec -> code: every case TLC enumerated (class, parameters, source length or endless, selection pattern) is
    built for real - once per public constructor of that class - over a counting source; the counter is compared
    with the value TLC exported at construction and after every next().
M3  code -> spec: larger parameters / many more outputs, and chains of two and three stages; the read counts are
    judged by TLC (spec/trace/LazyTrace.tla: Need_1(Need_2(...(k)))).
"""
import itertools
import operator
import os
import warnings

import common
import tlaval
import tlc
import tracecheck

BUDGET = 20000


class BudgetExceeded(Exception):
    pass


class Source(object):
    """Counting source: finite (items) or endless (function of the index); counts items handed out."""

    def __init__(self, length, item):
        self.length = length        # -1 = endless
        self.item = item            # position (1-based) -> item
        self.read = 0

    def __iter__(self):
        return self

    def __next__(self):
        if self.length >= 0 and self.read >= self.length:
            raise StopIteration
        if self.read >= BUDGET:
            raise BudgetExceeded()
        self.read += 1
        return self.item(self.read)


def passes(pat, i):
    return pat[(i - 1) % len(pat)]


# --------------------------------------------------------------------------------------------------
# the stage catalogue: class -> list of (name, builder(al, src, case) -> iterable of outputs, item function)
# --------------------------------------------------------------------------------------------------
def num_item(i):
    return float(i % 7) + 0.5


def int_item(i):
    return (i % 5) + 1


def catalogue(al):
    S = al.Stream
    z = al.z
    li = al.lazy_itertools
    cat = {}

    def add(cls, name, build, item=num_item, only=None):
        cat.setdefault(cls, []).append((name, build, item, only))

    # ---- sample-wise ---------------------------------------------------------------------------
    binops = ["add", "sub", "mul", "truediv", "floordiv", "mod", "pow", "lt", "le", "eq", "ne", "gt", "ge"]
    intops = ["rshift", "lshift", "and", "or", "xor"]
    for name in binops:
        f = getattr(operator, "__%s__" % name)
        add("sw", "Stream %s scalar" % name, lambda al, s, c, f=f: f(S(s), 2.0))
        if name not in ("lt", "le", "eq", "ne", "gt", "ge"):
            add("sw", "scalar r%s Stream" % name, lambda al, s, c, f=f: f(2.0, S(s)))
    for name in intops:
        f = getattr(operator, "__%s__" % name)
        add("sw", "Stream %s scalar" % name, lambda al, s, c, f=f: f(S(s), 1), int_item)
        add("sw", "scalar r%s Stream" % name, lambda al, s, c, f=f: f(1, S(s)), int_item)
    add("sw", "Stream + endless Stream", lambda al, s, c: S(s) + S(1.0, 2.0))
    add("sw", "list-free: endless Stream * Stream", lambda al, s, c: S(3.0) * S(s))
    for name in ("neg", "pos"):
        add("sw", "unary " + name, lambda al, s, c, f=getattr(operator, name): f(S(s)))
    add("sw", "unary invert", lambda al, s, c: ~S(s), int_item)
    add("sw", "abs", lambda al, s, c: abs(S(s)))
    add("sw", "Stream.map", lambda al, s, c: S(s).map(lambda x: x * 2))
    add("sw", "Stream.copy", lambda al, s, c: S(s).copy())
    add("sw", "Stream copy original", lambda al, s, c: (lambda st: (st.copy(), st)[1])(S(s)))
    add("sw", "Stream.__getattr__", lambda al, s, c: S(s).real)
    add("sw", "Stream.__call__", lambda al, s, c: S(s)(3), lambda i: (lambda x, i=i: x + i))
    add("sw", "Stream(thub) use", lambda al, s, c: S(al.thub(s, 1)))
    add("sw", "tee branch", lambda al, s, c: li.tee(S(s), 2)[0])
    add("sw", "imap", lambda al, s, c: li.imap(lambda x: x + 1, s))
    add("sw", "starmap", lambda al, s, c: li.starmap(operator.add, s), lambda i: (i, 1))
    add("sw", "izip", lambda al, s, c: li.izip(s, itertools.count()))
    add("sw", "izip.longest", lambda al, s, c: li.izip.longest(s, []))
    add("sw", "accumulate.accumulate", lambda al, s, c: li.accumulate.accumulate(s))
    add("sw", "accumulate.func", lambda al, s, c: li.accumulate.func(s))
    add("sw", "accumulate.z", lambda al, s, c: li.accumulate.z(s))
    add("sw", "cycle", lambda al, s, c: li.cycle(s), only="first-pass")
    add("sw", "enumerate via izip count", lambda al, s, c: li.izip(li.count(), s))
    add("sw", "FIR filter", lambda al, s, c: (1 - z ** -1)(s))
    add("sw", "IIR filter", lambda al, s, c: al.ZFilter([1, 1], [1, -.5])(s))
    add("sw", "time-varying filter input", lambda al, s, c: (S(1.0, 2.0) * z ** -1 + 1)(s))
    add("sw", "time-varying filter coefficient", lambda al, s, c: (S(s) * z ** -1 + 1)(S(1.0)))
    add("sw", "lowpass(stream) parameter", lambda al, s, c: al.lowpass(S(s) * .1 + .05)(S(1.0)))
    add("sw", "CascadeFilter", lambda al, s, c: al.CascadeFilter(1 - z ** -1, 1 + z ** -1)(s))
    add("sw", "ParallelFilter", lambda al, s, c: al.ParallelFilter(1 - z ** -1, z ** -2)(s))
    add("sw", "zcross", lambda al, s, c: al.zcross(s))
    add("sw", "unwrap", lambda al, s, c: al.unwrap(s))
    add("sw", "clip", lambda al, s, c: al.clip(s, -1, 1))
    for st in ("deque", "recursive", "fir"):
        add("sw", "maverage." + st, lambda al, s, c, st=st: al.maverage[st](3)(s))
    for st in ("abs", "rms", "squared"):
        add("sw", "envelope." + st, lambda al, s, c, st=st: al.envelope[st](s))
    add("sw", "amdf", lambda al, s, c: al.amdf(2, 3)(s))
    add("sw", "Streamix event", lambda al, s, c: (lambda m: (m.add(0, s), m)[1])(al.Streamix()))
    add("sw", "sin(generator)", lambda al, s, c: al.sin(x for x in s))
    add("sw", "dB20(Stream)", lambda al, s, c: al.dB20(S(s)))
    add("sw", "absolute(map)", lambda al, s, c: al.absolute(map(lambda x: x, s)))
    add("sw", "modulo_counter stream step", lambda al, s, c: al.modulo_counter(0., 5., S(s)))
    add("sw", "modulo_counter stream modulo", lambda al, s, c: al.modulo_counter(0., S(s) + 3, .5))
    add("sw", "TableLookup call", lambda al, s, c: al.TableLookup([0., 1., 0., -1.])(S(s) * .1))
    add("sw", "sinusoid stream freq", lambda al, s, c: al.sinusoid(S(s) * .01))
    # the start / phase given as a Stream (constant step): one item per output
    add("sw", "modulo_counter stream start", lambda al, s, c: al.modulo_counter(S(s), 12., 1.))
    add("sw", "modulo_counter stream start, small step", lambda al, s, c: al.modulo_counter(S(s), 5., .25))
    add("sw", "sinusoid stream phase", lambda al, s, c: al.sinusoid(.25, phase=S(s)))
    add("sw", "TableLookup stream phase", lambda al, s, c: al.TableLookup([0., 1., 0., -1.])(.3, phase=S(s) * .1))
    add("sw", "modulo_counter all streams", lambda al, s, c: al.modulo_counter(S(s), S(7.), S(.5)))
    add("sw", "zero_pad(0,0)", lambda al, s, c: S(al.zero_pad(s)))
    # ---- blocks ----------------------------------------------------------------------------------
    add("blocks", "blocks()", lambda al, s, c: (list(b) for b in al.blocks(s, c["a"], c["b"])))
    add("blocks", "Stream.blocks", lambda al, s, c: S(s).blocks(size=c["a"], hop=c["b"]).map(list))
    add("blocks", "chunks.struct", lambda al, s, c: al.chunks.struct(s, c["a"], "f"), only="hop=size")
    add("blocks", "stft(ola=None)", lambda al, s, c: al.stft(lambda b: list(b), size=c["a"], hop=c["b"], ola=None,
                                                             transform=None, inverse_transform=None, before=None, after=None)(s),
        only="hop<=size")
    # ---- skip / dropwhile / every / limit ----------------------------------------------------------
    add("skip", "Stream.skip", lambda al, s, c: S(s).skip(c["a"]))
    add("skip", "islice(n, None)", lambda al, s, c: li.islice(s, c["a"], None))
    add("dwhile", "dropwhile", lambda al, s, c: li.dropwhile(lambda x: x > 0, s),
        lambda i, c=None: None)        # item function set per case below
    add("every", "islice(0, None, s)", lambda al, s, c: li.islice(s, 0, None, c["a"]))
    add("limit", "Stream.limit", lambda al, s, c: S(s).limit(c["a"]))
    add("limit", "islice(n)", lambda al, s, c: li.islice(s, c["a"]))
    add("limit", "Stream.take via peek-free limit", lambda al, s, c: iter(S(s).limit(c["a"])))
    # ---- selection -----------------------------------------------------------------------------------
    add("sel", "Stream.filter", lambda al, s, c: S(s).filter(lambda x: x > 0))
    add("sel", "ifilter", lambda al, s, c: li.ifilter(lambda x: x > 0, s))
    add("sel", "ifilterfalse", lambda al, s, c: li.ifilterfalse(lambda x: x <= 0, s))
    add("sel", "compress data", lambda al, s, c: li.compress(s, itertools.cycle(c["pat"])), only="all-items")
    add("twhile", "takewhile", lambda al, s, c: li.takewhile(lambda x: x > 0, s))
    # ---- prefix ----------------------------------------------------------------------------------------
    add("prefix", "Stream.append", lambda al, s, c: S([9.0] * c["a"]).append(s))
    add("prefix", "chain", lambda al, s, c: li.chain([9.0] * c["a"], s))
    add("prefix", "chain.star", lambda al, s, c: li.chain.star(iter([[9.0] * c["a"], s])))
    add("prefix", "zero_pad left", lambda al, s, c: S(al.zero_pad(s, left=c["a"])))
    add("prefix", "Stream(a, b) chaining", lambda al, s, c: S([9.0] * c["a"], s))
    # a mixer event that starts `a` samples later: the silence before it needs nothing of it
    add("prefix", "Streamix late event", lambda al, s, c: (lambda m: (m.add(c["a"], s), m)[1])(al.Streamix()))
    add("prefix", "Streamix(keep) late event after another",
        lambda al, s, c: (lambda m: (m.add(0, [9.0] * c["a"]), m.add(c["a"], s), m)[2])(al.Streamix(True)))
    # ---- overlap-add -------------------------------------------------------------------------------------
    add("ola", "overlap_add.list(blocks)", lambda al, s, c: al.overlap_add.list(
        (list(b) for b in al.blocks(s, c["a"], c["b"])), hop=c["b"]))
    add("ola", "stft with ola", lambda al, s, c: al.stft(lambda b: list(b), size=c["a"], hop=c["b"], transform=None, before=None, after=None,
                                                         inverse_transform=None, ola=al.overlap_add.list)(s))
    # ---- misc ----------------------------------------------------------------------------------------------
    if hasattr(li, "pairwise"):
        add("pair", "pairwise", lambda al, s, c: li.pairwise(s))
    if hasattr(li, "batched"):
        add("batched", "batched", lambda al, s, c: li.batched(s, c["a"]))
    add("resample", "resample", lambda al, s, c: al.resample(s, old=c["a"], new=c["b"], order=c["c"]))
    # time-varying step: old and/or new given as (constant) Streams take the other branch of the generator
    add("resample", "resample(old=Stream)", lambda al, s, c: al.resample(s, old=S(float(c["a"])), new=c["b"],
                                                                          order=c["c"]))
    add("resample", "resample(new=Stream)", lambda al, s, c: al.resample(s, old=c["a"], new=S(float(c["b"])),
                                                                          order=c["c"]))
    return cat


def item_fn(case, base):
    """Items of the source for this case (selection classes need items that pass / fail a predicate)."""
    cls = case["cls"]
    if cls == "sel":
        pat = case["pat"]
        return lambda i: 1.0 if passes(pat, i) else -1.0
    if cls == "twhile":
        return lambda i: 1.0 if i <= case["a"] else -1.0
    if cls == "dwhile":
        return lambda i: 1.0 if i <= case["a"] else -1.0
    return base


def data_patterns(case, base):
    """What the source hands out must not matter for how much of it a stage reads: every stage is run on its
    ordinary items, on a lead-in of zeros (silence) and on a constant signal."""
    if case["cls"] in ("sel", "twhile", "dwhile"):
        return [("pattern", item_fn(case, base))]
    try:
        zero = base(1) * 0
        probe = base(1)
    except Exception:
        return [("items", base)]
    if not isinstance(probe, (int, float)):
        return [("items", base)]
    return [("items", base), ("silence-then-items", lambda i: zero if i <= 4 else base(i)),
            ("constant", lambda i: base(1))]


def applicable(case, only):
    if only is None:
        return True
    if only == "hop=size":
        return case["a"] == case["b"]
    if only == "hop<=size":
        return case["b"] <= case["a"]
    if only == "first-pass":
        return case["len"] != 0          # cycle of an empty source is empty; of a finite one it re-reads its copy
    if only == "all-items":
        return True
    return True


def run_stage(al, build, case, item, maxk):
    """Returns (reads list: [at construction, after 1 output, ...], budget_exceeded)."""
    src = Source(case["len"], item)
    reads = []
    budget = False
    try:
        try:
            out = iter(build(al, src, case))
        except BudgetExceeded:
            raise
        except Exception:          # a constructor that raises: what it had read by then is still an observation
            reads.append(src.read)
            return reads, budget
        reads.append(src.read)
        for _ in range(maxk):
            try:
                next(out)
            except StopIteration:
                break
            except BudgetExceeded:
                raise
            except Exception:       # how a stage ends is other properties' business (C03/C06/...): stop counting
                break
            reads.append(src.read)
    except BudgetExceeded:
        budget = True
    return reads, budget


def case_name(c):
    return "%s(a=%d,b=%d,c=%d) len=%s pat=%s" % (c["cls"], c["a"], c["b"], c["c"], c["len"],
                                                 "".join("1" if x else "0" for x in c["pat"]))


def m2(ctx, al, cat):
    d = tlc.scratch_dir("c02")
    dump = os.path.join(d, "st")
    r = tlc.require_ok(tlc.run("LazyC02", "LazyC02.cfg", dump=dump), "LazyC02", need_actions=("Build", "Step"))
    ctx.add_tlc(r, "Lazy (C02 grid): reading loops vs Need(k)")
    bound = {}
    cases = {}
    for st in tlaval.read_dump(dump + ".dump"):
        key = case_name(st["case"])
        cases[key] = st["case"]
        if st["built"] and not st["ended"]:
            bound.setdefault(key, {})[st["emitted"]] = st["pulled"]
    maxk = 6
    n = 0
    used = set()
    for key, case in sorted(cases.items()):
        L = case["len"] if case["len"] >= 0 else 10 ** 9
        for name, build, base_item, only in cat.get(case["cls"], []):
            if not applicable(case, only):
                continue
            for pat_name, item in data_patterns(case, base_item):
              reads, budget = run_stage(al, build, case, item, maxk)
              n += 1
              used.add(name)
              ctx.count(1, nontrivial_key=(name, key, pat_name) if len(reads) >= 3 else None)
              if n % 1500 == 0:
                  ctx.sample({"stage": name, "case": key, "reads_after_each_output": reads})
              if budget:
                  ctx.violation("C02:no-finite-time:%s" % name, {"stage": name, "case": key, "reads": reads})
                  continue
              if reads and reads[0] != 0:
                  ctx.violation("C02:read-at-construction:%s" % name, {"stage": name, "case": key, "read": reads[0]})
              for k in range(1, len(reads)):
                  b = bound[key].get(k, L)
                  if reads[k] > min(b, L):
                      ctx.violation("C02:over-read:%s" % name, {"stage": name, "case": key, "outputs": k,
                                                                "read": reads[k], "need": b, "reads": reads})
                      break
    ctx.traces += n
    ctx.log("M2: %d real stage runs over %d spec cases, %d distinct constructors" % (n, len(cases), len(used)))
    ctx.extra["constructors_covered"] = sorted(used)


CHAINABLE = ["sw", "skip", "limit", "sel", "every", "prefix", "twhile", "dwhile", "resample"]
LAST_ONLY = ["blocks", "pair", "batched"]


def random_case(rng, cls, big):
    m = 12 if big else 4
    c = {"cls": cls, "a": 0, "b": 0, "c": 0, "len": -1, "pat": [True]}
    if cls == "blocks":
        c["a"], c["b"] = rng.randint(1, m), rng.randint(1, m + 3)
    elif cls in ("skip", "dwhile", "limit", "prefix", "twhile"):
        c["a"] = rng.randint(0, m * 2)
    elif cls in ("every", "batched"):
        c["a"] = rng.randint(1, m)
    elif cls == "sel":
        c["pat"] = [rng.random() < 0.5 for _ in range(rng.randint(1, 6))]
        if not any(c["pat"]):
            c["pat"][rng.randrange(len(c["pat"]))] = True
    elif cls == "ola":
        c["a"] = rng.randint(1, m)
        c["b"] = rng.randint(1, c["a"])
    elif cls == "resample":
        c["a"], c["b"], c["c"] = rng.randint(1, 5), rng.randint(1, 5), rng.randint(1, 4)
    return c


def m3(ctx, al, cat, count, maxk):
    rng = ctx.rng
    recs, meta = [], []
    classes = [k for k in cat if cat[k]]
    for n in range(count):
        depth = rng.choice([1, 1, 2, 2, 3])
        chain = []
        for lvl in range(depth):
            last = lvl == depth - 1
            pool = [k for k in classes if k in CHAINABLE or (last and k in LAST_ONLY) or (depth == 1)]
            if lvl > 0:
                pool = [k for k in pool if k != "ola"]
            cls = rng.choice(pool)
            chain.append(random_case(rng, cls, depth == 1))
        # source length belongs to the innermost stage
        chain[0]["len"] = rng.choice([-1, -1, rng.randint(0, 60)])
        builders = []
        ok = True
        for c in chain:
            opts = [b for b in cat[c["cls"]] if applicable(c, b[3]) and b[0] not in ("Stream.__call__", "starmap")]
            if c is not chain[0]:
                # inner items are numbers produced by the previous stage: predicates must still work; selection
                # classes deeper in the chain cannot control what passes, so they only appear innermost
                if c["cls"] in ("sel", "twhile", "dwhile"):
                    ok = False
                    break
            if not opts:
                ok = False
                break
            builders.append(rng.choice(opts))
        if not ok:
            continue
        first = chain[0]
        item = item_fn(first, builders[0][2])

        def build(al, src, case, builders=builders, chain=chain):
            cur = src
            for b, c in zip(builders, chain):
                cur = iter(b[1](al, cur, c))
            return cur
        k = maxk if depth == 1 else max(6, maxk // 4)
        reads, budget = run_stage(al, build, first, item, k)
        recs.append({"chain": chain, "reads": reads if reads else [0], "budget": budget})
        meta.append({"stages": [b[0] for b in builders], "chain": [case_name(c) for c in chain],
                     "reads": reads[:12]})
        ctx.count(1, nontrivial_key=("m3", n) if depth >= 2 else None)
    bad = tracecheck.run_records(ctx, "LazyTrace", {"Cases": "{}", "MaxK": 6}, recs, what="C02 recorded read counts",
                                 chunk=1500)
    ctx.traces += len(recs) - len(bad)
    if meta:
        ctx.sample({"recorded": meta[len(meta) // 3]})
    ctx.log("M3: %d recorded runs (chains up to 3 stages), %d rejected" % (len(recs), len(bad)))
    for i, info in sorted(bad.items()):
        m = meta[i - 1]
        ctx.violation("C02:%s:%s" % (info[0], "+".join(m["stages"])), dict(m, clause=info[0],
                                                                            outputs=info[1] if len(info) > 1 else None))


def check(ctx):
    al = common.import_audiolazy()
    warnings.simplefilter("ignore")
    cat = catalogue(al)
    ctx.rule = ("M2: every (class case x public constructor of the class) run over a counting source, counter compared "
                "after construction and after each of 6 outputs; non-trivial = >= 2 outputs; M3: larger parameters, up "
                "to 200 outputs, chains of 2-3 stages judged by TLC")
    ctx.assumptions = ["combinatoric itertools (product, permutations, combinations) are not stream stages",
                       "reading less than Need(k) is never an alarm; after a stage has ended only the source length "
                       "bounds the reads (limit: n)",
                       "a filter whose predicate never passes again may read to the end of a finite source"]
    m2(ctx, al, cat)
    m3(ctx, al, cat, 600 if not ctx.thorough else 6000, 60 if not ctx.thorough else 200)
    ctx.exhaustive = True
