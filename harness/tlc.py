"""Run TLC (model checking / simulation / trace validation) and parse what it prints."""
import atexit
import glob
import os
import re
import shutil
import subprocess
import sys
import tempfile
import time

import tlaval

VERIF = os.path.dirname(os.path.dirname(os.path.abspath(__file__)))
SPEC = os.path.join(VERIF, "spec")
JARS = ["/opt/veriftools/tla/tla2tools.jar", "/opt/veriftools/tla/CommunityModules-deps.jar"]
SPEC_DIRS = [os.path.join(SPEC, d) for d in ("lib", "core", "stream", "dsp", "io", "trace")]

_scratch = []


class MachineryError(Exception):
    """Tooling failed (TLC crash, overflow, time-out, parse error): exit code 2, never a verdict."""


def scratch_dir(tag="vf"):
    d = tempfile.mkdtemp(prefix="%s-" % tag)
    _scratch.append(d)
    return d


def _cleanup():
    for d in _scratch:
        shutil.rmtree(d, ignore_errors=True)


atexit.register(_cleanup)


def find_module(name):
    for d in SPEC_DIRS:
        p = os.path.join(d, name + ".tla")
        if os.path.exists(p):
            return p
    raise MachineryError("spec module %s not found" % name)


class TlcResult(object):
    def __init__(self):
        self.rc = None
        self.out = ""
        self.generated = 0
        self.distinct = 0
        self.depth = 0
        self.wall = 0.0
        self.prints = []          # parsed PrintT values
        self.coverage = {}        # action name -> (distinct, total) taken
        self.violated = None      # name of violated invariant / property, or 'deadlock' / 'temporal'
        self.error_trace = []     # list of (label, state dict)
        self.errors = []
        self.incomplete = False

    @property
    def ok(self):
        # TLC can print "Error: ... StackOverflowError" for one state, stop exploring and still exit 0:
        # any Error line, or states left on the queue, makes the run not ok
        return self.rc == 0 and self.violated is None and not self.errors and not self.incomplete


_RE_STATES = re.compile(r"(\d+) states generated, (\d+) distinct states found")
_RE_DEPTH = re.compile(r"The depth of the complete state graph search is (\d+)")
_RE_COV = re.compile(r"^<(\w+) line \d+, col \d+ to line \d+, col \d+ of module (\w+)>: (\d+):(\d+)")
_RE_INV = re.compile(r"Error: Invariant (\S+) is violated")
_RE_PROP = re.compile(r"Error: Action property (\S+)? ?.*is violated|Error: Action property line")
_RE_SIMSTATES = re.compile(r"The number of states generated: (\d+)")


def split_prints(out):
    """PrintT output may interleave across workers; values start at line start with <<, [, {, ( or a quote."""
    vals = []
    lines = out.splitlines()
    i = 0
    while i < len(lines):
        ln = lines[i]
        if ln[:2] == "<<" or (ln[:1] in "[{(" and not ln.startswith("(see")):
            buf = ln
            depth = _depth(ln)
            while depth > 0 and i + 1 < len(lines):
                i += 1
                buf += "\n" + lines[i]
                depth += _depth(lines[i])
            try:
                vals.append(tlaval.parse(buf))
            except tlaval.ParseError:
                pass
        i += 1
    return vals


def _depth(s):
    s = re.sub(r'"(?:[^"\\]|\\.)*"', '""', s)
    return (s.count("<<") + s.count("[") + s.count("{") + s.count("(")
            - s.count(">>") - s.count("]") - s.count("}") - s.count(")"))


def run(module, cfg, workers=16, cwd=None, env=None, dump=None, dump_dot=None,
        simulate=None, depth=None, seed=None, coverage=True, timeout=1800,
        deadlock=None, extra=(), jvm=(), heap="4g", dfs=False, continue_=False):
    """module: path to root .tla (or bare module name searched in spec dirs); cfg: path to .cfg"""
    root = module if os.path.sep in module else find_module(module)
    if cfg is not None and os.path.sep not in cfg:
        cfg = os.path.join(os.path.dirname(root), cfg)
    meta = scratch_dir("tlcmeta")
    lib = os.pathsep.join(SPEC_DIRS + ([cwd] if cwd else []))
    # (java.io.tmpdir: TLC leaves a `tlc-<n>` directory per run in the temp dir; keep it inside the scratch directory
    # that is removed at exit instead of piling up in /tmp)
    cmd = ["java", "-XX:+UseParallelGC", "-Xmx" + heap, "-Xss32m", "-Djava.io.tmpdir=" + meta, "-DTLA-Library=" + lib]
    if dfs:
        cmd.append("-Dtlc2.tool.queue.IStateQueue=StateDeque")
    cmd += list(jvm)
    cmd += ["-cp", os.pathsep.join(JARS), "tlc2.TLC", "-workers", str(workers),
            "-metadir", meta, "-noGenerateSpecTE"]
    if cfg:
        cmd += ["-config", cfg]
    if coverage and not simulate:
        cmd += ["-coverage", "1"]
    if dump:
        cmd += ["-dump", dump]
    if dump_dot:
        cmd += ["-dump", "dot,actionlabels", dump_dot]
    if simulate:
        cmd += ["-simulate", simulate]
    if depth:
        cmd += ["-depth", str(depth)]
    if seed is not None:
        cmd += ["-seed", str(seed)]
    if deadlock is False:
        cmd += ["-deadlock"]
    if continue_:
        cmd += ["-continue"]
    cmd += list(extra)
    cmd.append(root)
    e = dict(os.environ)
    e.pop("JAVA_TOOL_OPTIONS", None)
    if env:
        e.update(env)
    t0 = time.time()
    try:
        p = subprocess.run(cmd, cwd=cwd or os.path.dirname(root), env=e, stdout=subprocess.PIPE,
                           stderr=subprocess.STDOUT, timeout=timeout, universal_newlines=True)
    except subprocess.TimeoutExpired as ex:
        subprocess.call(["pkill", "-f", meta])
        raise MachineryError("TLC timed out after %ss on %s" % (timeout, root))
    finally:
        shutil.rmtree(meta, ignore_errors=True)
    r = TlcResult()
    r.wall = time.time() - t0
    r.rc = p.returncode
    r.out = p.stdout
    r.cmd = cmd
    for m in _RE_STATES.finditer(r.out):
        r.generated, r.distinct = int(m.group(1)), int(m.group(2))
    m = _RE_SIMSTATES.search(r.out)
    if m:
        r.generated = r.distinct = int(m.group(1))
    m = _RE_DEPTH.search(r.out)
    if m:
        r.depth = int(m.group(1))
    for ln in r.out.splitlines():
        m = _RE_COV.match(ln)
        if m:
            name = m.group(1)
            a, b = int(m.group(3)), int(m.group(4))
            old = r.coverage.get(name, (0, 0))
            r.coverage[name] = (old[0] + a, old[1] + b)
    m = _RE_INV.search(r.out)
    if m:
        r.violated = m.group(1)
    elif "Error: Action property" in r.out:
        mm = re.search(r"Error: Action property (\S+) is violated", r.out)
        r.violated = mm.group(1) if mm else "action-property"
    elif "Error: Deadlock reached" in r.out:
        r.violated = "deadlock"
    elif "Error: Temporal properties were violated" in r.out or re.search(r"Error: Temporal property \S+ was violated", r.out):
        r.violated = "temporal"
    elif "Error: Assumption" in r.out:
        r.violated = "assumption"
    r.errors = [ln for ln in r.out.splitlines() if ln.startswith("Error:")]
    ms = re.findall(r"(\d+) states? left on queue", r.out)
    if not simulate and (not ms or int(ms[-1]) != 0) and r.rc == 0:
        r.incomplete = True
    if r.errors and r.violated is None:
        r.violated = "tlc-error"
    if r.violated:
        r.error_trace = _error_trace(r.out)
    r.prints = split_prints(r.out)
    return r


def _error_trace(out):
    tr = []
    cur, lab = None, None
    for ln in out.splitlines():
        m = re.match(r"^State (\d+): (.*)$", ln)
        if m:
            if cur is not None:
                tr.append((lab, cur))
            lab, cur = m.group(2), []
            continue
        if cur is not None:
            if ln.startswith("/\\") or ln.startswith("   ") or ln.startswith("  "):
                cur.append(ln)
            elif ln.strip() == "":
                tr.append((lab, cur))
                cur = None
    if cur is not None:
        tr.append((lab, cur))
    res = []
    for lab, lines in tr:
        try:
            res.append((lab, tlaval.parse_state("\n".join(lines))))
        except Exception:
            res.append((lab, {"_raw": "\n".join(lines)}))
    return res


def require_ok(r, what, need_actions=()):
    """Model-checking runs of the design: anything other than a clean pass is a machinery/design failure."""
    if not r.ok:
        tail = "\n".join(r.out.splitlines()[-60:])
        raise MachineryError("%s: TLC rc=%s violated=%s\n%s" % (what, r.rc, r.violated, tail))
    for a in need_actions:
        if r.coverage.get(a, (0, 0))[1] == 0 and r.coverage.get(a, (0, 0))[0] == 0:
            raise MachineryError("%s: action %s never taken (vacuous)" % (what, a))
    return r


def read_sim_traces(prefix):
    """Behaviours written by -simulate file=<prefix>: list of lists of (action label, state)."""
    out = []
    for path in sorted(glob.glob(prefix + "*")):
        beh = []
        lab = None
        buf = []
        with open(path) as fh:
            for ln in fh:
                if ln.startswith("\\*"):
                    lab = ln[2:].strip()
                elif ln.startswith("STATE_"):
                    buf = []
                elif ln.strip() == "" and buf:
                    beh.append((lab, tlaval.parse_state("".join(buf))))
                    buf = []
                elif ln.startswith("/\\") or (buf and ln.startswith(" ")):
                    buf.append(ln)
            if buf:
                beh.append((lab, tlaval.parse_state("".join(buf))))
        out.append(beh)
    return out
