"""Shared context of a check run: repo import, evidence, findings, verdict lines."""
import importlib
import json
import os
import random
import sys
import time

VERIF = os.path.dirname(os.path.dirname(os.path.abspath(__file__)))
REPO = os.environ.get("VERIF_REPO", "/repo")
LEVEL = "model_checking"


def import_audiolazy():
    if REPO not in sys.path:
        sys.path.insert(0, REPO)
    sys.dont_write_bytecode = True
    import audiolazy
    here = os.path.realpath(os.path.dirname(audiolazy.__file__))
    want = os.path.realpath(os.path.join(REPO, "audiolazy"))
    if here != want:
        raise RuntimeError("audiolazy imported from %s, expected %s" % (here, want))
    return audiolazy


def load_findings():
    path = os.path.join(VERIF, "known_findings.json")
    try:
        with open(path) as fh:
            return json.load(fh)
    except IOError:
        return {"findings": [], "fixed": []}


class Ctx(object):
    """One run of one property's check."""

    def __init__(self, pid, tier, seed):
        self.pid = pid
        self.tier = tier
        self.seed = seed
        self.rng = random.Random(seed * 1000003 + sum(map(ord, pid)))
        self.t0 = time.time()
        self.states = 0
        self.transitions = 0
        self.traces = 0
        self.evaluations = 0
        self.nontrivial = set()
        self.nontrivial_count = 0
        self.samples = []
        self.rule = ""
        self.exhaustive = None
        self.assumptions = []
        self.violations = []       # (key, detail)
        self.known_hit = []
        self.extra = {}
        self.tlc_runs = []
        self._findings = load_findings()
        self.thorough = tier == "thorough"

    # ---- accounting -------------------------------------------------------------
    def add_tlc(self, r, what):
        self.states += r.distinct
        self.transitions += r.generated
        self.tlc_runs.append({"what": what, "distinct": r.distinct, "generated": r.generated,
                              "depth": r.depth, "wall_s": round(r.wall, 2),
                              "actions": {k: v[1] for k, v in r.coverage.items()}})

    def sample(self, obj, limit=6):
        if len(self.samples) < limit:
            self.samples.append(obj)

    def count(self, n=1, nontrivial_key=None):
        self.evaluations += n
        if nontrivial_key is not None:
            if len(self.nontrivial) < 2000000:
                self.nontrivial.add(nontrivial_key)

    def log(self, *a):
        print("[%s %6.1fs]" % (self.pid, time.time() - self.t0), *a)
        sys.stdout.flush()

    # ---- verdicts ---------------------------------------------------------------
    def violation(self, key, detail):
        """key: stable identifier of the failing input/call site/history class (matched against known findings)."""
        for f in self._findings.get("findings", []):
            if f["property"] == self.pid and f["key"] == key:
                if key not in [k for k, _ in self.known_hit]:
                    self.known_hit.append((key, f["what"]))
                return
        self.violations.append((key, detail))

    def drift(self, key, detail):
        """The code no longer follows the IMPLEMENTATION-SHAPED model (lock order, internal lists, which thread is
        joined first ...) although nothing the property states was seen to fail: reported, never a VIOLATION."""
        if not hasattr(self, "drifts"):
            self.drifts = []
        self.drifts.append((key, detail))

    def finish(self):
        wall = time.time() - self.t0
        drifts = getattr(self, "drifts", [])
        if drifts:
            keys = sorted(set(k for k, _ in drifts))
            self.extra["model_drift"] = {"executions": len(drifts), "keys": keys,
                                         "first": json.loads(json.dumps(drifts[0][1], default=str))}
            print("MODEL-DRIFT property=%s executions=%d keys=%s (the implementation-shaped model does not explain "
                  "these executions; the property-level judgement of the same executions is the verdict)"
                  % (self.pid, len(drifts), ",".join(keys)))
        ev = {
            "property_id": self.pid, "tier": self.tier, "seed": self.seed, "level": LEVEL,
            "coverage": dict({
                "states": self.states, "transitions": self.transitions,
                "traces_validated_against_impl": self.traces,
                "samples": self.samples or ["(none)"],
                "evaluations": self.evaluations,
                "distinct_nontrivial": len(self.nontrivial) + self.nontrivial_count,
                "rule": self.rule,
                "tlc_runs": self.tlc_runs,
            }, **self.extra),
            "assumptions": self.assumptions,
            "wall_s": round(wall, 2),
            "violations": len(self.violations),
        }
        if self.exhaustive is not None:
            ev["coverage"]["exhaustive"] = bool(self.exhaustive)
        if self.known_hit:
            ev["coverage"]["known_findings_hit"] = [k for k, _ in self.known_hit]
        if not os.environ.get("VERIF_NO_EVIDENCE"):
            os.makedirs(os.path.join(VERIF, "evidence"), exist_ok=True)
            with open(os.path.join(VERIF, "evidence", self.pid + ".json"), "w") as fh:
                json.dump(ev, fh, indent=1, sort_keys=True, default=str)
                fh.write("\n")
        for key, what in self.known_hit:
            print("KNOWN-FINDING: property=%s %s [%s]" % (self.pid, what, key))
        if self.violations:
            rdir = os.path.join(VERIF, "replays") if not os.environ.get("VERIF_NO_EVIDENCE") else \
                os.path.join(VERIF, "replays", "selftest")
            os.makedirs(rdir, exist_ok=True)
            seen = set()
            n = 0
            for key, detail in self.violations:
                if key in seen:
                    continue
                seen.add(key)
                n += 1
                if n > 20:
                    break
                path = os.path.join(rdir, "%s_%s_%d.json" % (self.pid, self.tier, n))
                with open(path, "w") as fh:
                    json.dump({"property": self.pid, "key": key, "detail": detail, "seed": self.seed,
                               "tier": self.tier}, fh, indent=1, default=str)
                print("VIOLATION property=%s replay=%s" % (self.pid, path))
                print("  key=%s" % key)
                print("  " + json.dumps(detail, default=str)[:600])
            self.log("FAIL: %d violation(s), %d distinct key(s)" % (len(self.violations), len(seen)))
            return 1
        self.log("PASS states=%d transitions=%d traces=%d evaluations=%d wall=%.1fs" %
                 (self.states, self.transitions, self.traces, self.evaluations, wall))
        return 0
