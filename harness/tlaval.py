"""TLA+ value reader / writer.

parse(text)  : TLA+ value as printed by TLC (dump files, PrintT, error traces) -> Python
    integers -> int, "str" -> str, TRUE/FALSE -> bool, <<..>> -> tuple,
    {..} -> frozenset, [a |-> v, ..] -> dict (str keys), (k :> v @@ ..) -> dict,
    bare identifiers (model values) -> Mv(name)
to_tla(obj)  : Python -> TLA+ expression text (for cfg constants / generated modules)
"""
import re


class Mv(str):
    """A TLC model value / bare identifier."""
    def __repr__(self):
        return "Mv(%s)" % str.__repr__(self)


class ParseError(Exception):
    pass


_tok = re.compile(r"""\s*(?:
    (?P<int>-?\d+)
  | (?P<str>"(?:[^"\\]|\\.)*")
  | (?P<op><<|>>|\|->|:>|@@|\.\.|[\[\]{}(),])
  | (?P<id>[A-Za-z_][A-Za-z0-9_!]*)
)""", re.X)


def _tokens(text):
    pos, n = 0, len(text)
    out = []
    while True:
        m = _tok.match(text, pos)
        if not m:
            if text[pos:].strip() == "":
                return out
            raise ParseError("bad token at %r" % text[pos:pos + 40])
        pos = m.end()
        kind = m.lastgroup
        out.append((kind, m.group(kind)))


def _unescape(s):
    return (s[1:-1].replace('\\"', '"').replace("\\\\", "\\")
            .replace("\\n", "\n").replace("\\t", "\t"))


class _P(object):
    def __init__(self, toks):
        self.t = toks
        self.i = 0

    def peek(self):
        return self.t[self.i] if self.i < len(self.t) else (None, None)

    def eat(self, val=None):
        k, v = self.peek()
        if k is None or (val is not None and v != val):
            raise ParseError("expected %r got %r" % (val, v))
        self.i += 1
        return k, v

    def value(self):
        k, v = self.eat()
        if k == "int":
            val = int(v)
            if self.peek() == ("op", ".."):   # interval a..b
                self.eat()
                _, hi = self.eat()
                return frozenset(range(val, int(hi) + 1))
            return val
        if k == "str":
            return _unescape(v)
        if k == "id":
            if v == "TRUE":
                return True
            if v == "FALSE":
                return False
            return Mv(v)
        if v == "<<":
            items = []
            while self.peek() != ("op", ">>"):
                items.append(self.value())
                if self.peek() == ("op", ","):
                    self.eat()
            self.eat(">>")
            return tuple(items)
        if v == "{":
            items = []
            while self.peek() != ("op", "}"):
                items.append(_freeze(self.value()))
                if self.peek() == ("op", ","):
                    self.eat()
            self.eat("}")
            return frozenset(items)
        if v == "[":
            d = {}
            while self.peek() != ("op", "]"):
                _, name = self.eat()
                self.eat("|->")
                d[str(name)] = self.value()
                if self.peek() == ("op", ","):
                    self.eat()
            self.eat("]")
            return d
        if v == "(":
            d = {}
            while True:
                key = _freeze(self.value())
                self.eat(":>")
                d[key] = self.value()
                if self.peek() == ("op", "@@"):
                    self.eat()
                    continue
                break
            self.eat(")")
            return d
        raise ParseError("unexpected %r" % v)


class FrozenDict(dict):
    def __hash__(self):
        return hash(frozenset(self.items()))


def _freeze(v):
    if isinstance(v, dict):
        return FrozenDict((k, _freeze(x)) for k, x in v.items())
    if isinstance(v, tuple):
        return tuple(_freeze(x) for x in v)
    return v


def parse(text):
    p = _P(_tokens(text))
    v = p.value()
    if p.i != len(p.t):
        raise ParseError("trailing tokens in %r" % text[:80])
    return v


def parse_state(block):
    """'/\\ a = v\n/\\ b = w' -> {'a': v, 'b': w}"""
    block = block.strip()
    parts = re.split(r"(?m)^/\\ ", block)
    st = {}
    for part in parts:
        if not part.strip():
            continue
        name, _, val = part.partition(" = ")
        st[name.strip()] = parse(val)
    return st


def read_dump(path):
    """Yield state dicts of a `tlc -dump <file>` text dump."""
    buf = []
    with open(path) as fh:
        for line in fh:
            if line.startswith("State ") and line.rstrip().endswith(":"):
                if buf:
                    yield parse_state("".join(buf))
                buf = []
            else:
                buf.append(line)
    if "".join(buf).strip():
        yield parse_state("".join(buf))


_node = re.compile(r'^(-?\d+) \[label="(.*?)"(?:,style = filled)?(?:,tooltip=".*")?\];?$')
_edge = re.compile(r'^(-?\d+) -> (-?\d+) \[label="(.*?)",color=')


def read_dot(path):
    """Parse `-dump dot,actionlabels` output: (nodes{id:state}, init ids, edges[(src,dst,label)])."""
    nodes, inits, edges = {}, [], []
    with open(path) as fh:
        for line in fh:
            line = line.rstrip("\n")
            m = _edge.match(line)
            if m:
                edges.append((m.group(1), m.group(2),
                              m.group(3).replace('\\"', '"').replace("\\\\", "\\")))
                continue
            m = _node.match(line)
            if m:
                lab = m.group(2).replace("\\n", "\n").replace('\\"', '"').replace("\\\\", "\\")
                nodes[m.group(1)] = parse_state(lab)
                if "style = filled" in line:
                    inits.append(m.group(1))
    return nodes, inits, edges


def to_tla(v):
    if isinstance(v, bool):
        return "TRUE" if v else "FALSE"
    if isinstance(v, Mv):
        return str(v)
    if isinstance(v, int):
        return str(v) if v >= 0 else "(%d)" % v
    if isinstance(v, str):
        return '"' + v.replace("\\", "\\\\").replace('"', '\\"') + '"'
    if isinstance(v, (tuple, list)):
        return "<<" + ", ".join(to_tla(x) for x in v) + ">>"
    if isinstance(v, (set, frozenset)):
        return "{" + ", ".join(sorted(to_tla(x) for x in v)) + "}"
    if isinstance(v, dict):
        if not v:
            return "<<>>"
        if all(isinstance(k, str) and re.match(r"^[A-Za-z_]\w*$", k) and not isinstance(k, Mv) for k in v):
            return "[" + ", ".join("%s |-> %s" % (k, to_tla(x)) for k, x in v.items()) + "]"
        return "(" + " @@ ".join("%s :> %s" % (to_tla(k), to_tla(x)) for k, x in v.items()) + ")"
    raise TypeError("cannot express %r in TLA+" % (v,))


def parse_label(label):
    """'SetItem(<<"a">>, 1)' -> ('SetItem', [('a',), 1]);  'Next' -> ('Next', [])"""
    m = re.match(r"^(\w+)(?:\((.*)\))?$", label, re.S)
    if not m:
        raise ParseError("bad action label %r" % label)
    if m.group(2) is None:
        return m.group(1), []
    return m.group(1), list(parse("<<" + m.group(2) + ">>"))
