"""C10 - LPC / Levinson-Durbin solve their normal equations and report the true error.

M1  TLC: spec/dsp/Lpc.tla on the LpcC10 grid.  The Levinson machine (A <- A - <A,z^-m>/<B,B> B, zero
    extension) satisfies the Toeplitz normal equations and error = sum a_j r_j at every order; acorr is
    the Gram table of the zero-extended block, so lpc.kautocor has a vanishing energy gradient and
    error = energy; the Gram-Schmidt machine of lpc.kcovar satisfies the covariance normal equations
    with error = residual energy over n >= p; lag_matrix is the Gram table over n >= p.
M2  spec -> code: every state TLC reached is replayed: acorr / lag_matrix against the exported tables
    (exact), levinson_durbin / lpc.kautocor at the state's order and lpc.kcovar at its end against the
    exported exact rationals (the code computes in floats: DESIGN 2.4 rule), through int / Fraction /
    float / tuple argument routes.  toeplitz of every enumerated vector is judged by TLC.
M3  code -> spec: random longer blocks / higher orders; inputs and the code's numerator / error are logged
    (floats as fixed point) and TLC evaluates the defining equations (spec/trace/LpcTrace.tla).
"""
import os
from fractions import Fraction

import common
import tlaval
import tlc
import tracecheck
import lpc_common as L

ROUTES = ("int", "frac", "float", "mixed")
BAD = [[[0, 0]]]       # stands for "not a table of exact numbers": <<0, 0>> is no normalised rational, equals nothing


def as_arg(vals, n):
    """list / tuple container variety"""
    return tuple(vals) if n % 2 else list(vals)


def cmp_table(code, spec):
    """exact comparison of a (nested) list returned by the library with a spec table of rationals"""
    if isinstance(spec, tuple) and len(spec) == 2 and all(isinstance(t, int) for t in spec):
        e = L.exactly(code)
        return e is not None and e == L.fr(spec)
    if not isinstance(code, list) or len(code) != len(spec):
        return False
    return all(cmp_table(c, s) for c, s in zip(code, spec))


def observe_filter(f):
    """numerator list and error attribute of a returned filter"""
    return list(f.numerator), getattr(f, "error", None), list(f.denominator)


def judge_solution(ctx, key, info, obs, a_exact, err_exact, order):
    num, err, den = obs
    ok_den = len(den) == 1 and L.exactly(den[0]) == 1
    ok_monic = len(num) >= 1 and L.exactly(num[0]) == 1
    ok_len = len(num) <= order + 1
    ok_num = ok_len and L.near_seq(num, a_exact)
    ok_err = err_exact is None or L.near(err, err_exact)
    if not (ok_den and ok_monic and ok_num):
        ctx.violation(key + "-normal-equations", dict(info, expected_numerator=L.show(a_exact),
                                                      numerator=L.show(num), denominator=L.show(den)))
    elif not ok_err:
        ctx.violation(key + "-error", dict(info, expected_error=str(err_exact), error=repr(err),
                                           numerator=L.show(num)))
    return ok_den and ok_monic and ok_num and ok_err


def m2(ctx, al, cfg):
    d = tlc.scratch_dir("c10")
    dump = os.path.join(d, "states")
    r = tlc.require_ok(tlc.run(cfg[:-4], cfg, dump=dump), cfg[:-4],
                       need_actions=("LdStep", "LdFinish", "KcStep"))
    ctx.add_tlc(r, "Lpc (C10 grid): Levinson / kcovar machines == normal equations, error identities")
    nstates = 0
    diag = {"ld-singular": 0, "ld-singular-disagree": 0, "kc-raise": 0, "kc-raise-unflagged": 0,
            "kc-zerodiv": 0}
    returned_kc = 0
    toep = {}
    for st in tlaval.read_dump(dump + ".dump"):
        nstates += 1
        c = st["case"]
        kind = c["kind"]
        ck = L.case_key(c)
        order = c["order"]
        if kind in ("ld", "ka", "kl"):
            rr = L.frs(st["r"])
            toep[tuple(st["r"])] = True
            m = st["m"]
            if st["pc"] == "ld" and m == 0 and st["err"] == "none" and kind == "ka":
                x = L.frs(c["x"])
                for route in ROUTES:
                    xs = L.route_values(x, route)
                    if xs is None:
                        continue
                    e, out = L.call(al.acorr, as_arg(xs, nstates), order)
                    ctx.count(1)
                    if e != "none" or not cmp_table(out, st["r"]):
                        ctx.violation("C10:acorr", {"case": ck, "route": route, "err": e,
                                                    "expected": L.show(rr), "observed": repr(out)})
                if order == len(x) - 1:
                    e, out = L.call(al.acorr, list(x))
                    if e != "none" or not cmp_table(out, st["r"]):
                        ctx.violation("C10:acorr", {"case": ck, "route": "default max_lag", "err": e,
                                                    "expected": L.show(rr), "observed": repr(out)})
            final = st["pc"] == "done"
            if st["err"] != "none":
                # singular system: outside the property's quantifier ("does not divide by zero");
                # what the code does there is recorded as diagnostics only
                diag["ld-singular"] += 1
                e, out = _run_lev(al, c, rr, order, "frac", nstates)
                if e != "ParCorError":
                    diag["ld-singular-disagree"] += 1
                continue
            a_exact = L.frs(st["A"])
            p = order if final else m
            err_exact = L.fr(st["errv"]) if final else None
            routes = ROUTES if final else (ROUTES[nstates % 4], "frac")
            for route in routes:
                res = _run_lev(al, c, rr, p, route, nstates)
                if res is None:
                    continue
                e, f = res
                ctx.count(1, nontrivial_key=(ck, p) if p >= 2 else None)
                key = "C10:kautocor" if kind == "ka" else "C10:levinson"
                info = {"case": ck, "order": p, "route": route}
                if e != "none":
                    ctx.violation(key + "-normal-equations", dict(info, raised=e, expected_numerator=L.show(a_exact)))
                    continue
                ok = judge_solution(ctx, key, info, observe_filter(f), a_exact, err_exact, p)
                if ok and final and nstates % 997 == 0:
                    ctx.sample({"case": ck, "route": route, "numerator": L.show(f.numerator), "error": f.error,
                                "spec_numerator": L.show(a_exact), "spec_error": str(err_exact)})
        elif kind == "kc":
            x = L.frs(c["x"])
            if st["m"] == 1 and st["ks"] == () and st["err"] == "none" and st["pc"] == "kc":
                for route in ROUTES:
                    xs = L.route_values(x, route)
                    if xs is None:
                        continue
                    e, out = L.call(al.lag_matrix, as_arg(xs, nstates), order)
                    ctx.count(1)
                    if e != "none" or not cmp_table(out, st["phi"]):
                        ctx.violation("C10:lag_matrix", {"case": ck, "route": route, "err": e,
                                                         "expected": repr(st["phi"]), "observed": repr(out)})
                if order == len(x) - 1:
                    e, out = L.call(al.lag_matrix, list(x))
                    if e != "none" or not cmp_table(out, st["phi"]):
                        ctx.violation("C10:lag_matrix", {"case": ck, "route": "default max_lag", "err": e,
                                                         "expected": repr(st["phi"]), "observed": repr(out)})
            if st["err"] != "none":
                diag["kc-zerodiv"] += 1
                continue
            if st["pc"] != "done":
                continue                 # intermediate Gram-Schmidt states are not observable
            a_exact = L.frs(st["A"])
            err_exact = L.fr(st["errv"])
            for route in ROUTES:
                xs = L.route_values(x, route)
                if xs is None:
                    continue
                e, f = L.call(al.lpc.kcovar, as_arg(xs, nstates), order)
                ctx.count(1, nontrivial_key=(ck, route) if order >= 2 else None)
                if e != "none":
                    # "lpc.kcovar, when it returns": a refusal is not covered by the statement
                    diag["kc-raise"] += 1
                    if not (e == "ValueError" and st["flag"] == "ValueError"):
                        diag["kc-raise-unflagged"] += 1
                    continue
                returned_kc += 1
                judge_solution(ctx, "C10:kcovar", {"case": ck, "order": order, "route": route,
                                                   "spec_flag": st["flag"]},
                               observe_filter(f), a_exact, err_exact, order)
    if nstates != r.distinct:
        raise tlc.MachineryError("dump has %d states, TLC reported %d" % (nstates, r.distinct))
    L.require_some(returned_kc, "lpc.kcovar returned for no enumerated case")
    ctx.traces += nstates
    ctx.log("M2: %d spec states replayed; lpc.kcovar returned (and was judged) %d times; diagnostics (not verdicts): %s"
            % (nstates, returned_kc, diag))
    # toeplitz of every enumerated autocorrelation vector, judged by TLC
    recs, meta = [], []
    for key in sorted(toep):
        v = L.frs(key)
        for route in ("frac", "mixed"):
            e, out = L.call(al.toeplitz, L.route_values(v, route))
            recs.append(toeplitz_rec(v, e, out))
            meta.append({"toeplitz of": L.show(v), "route": route, "err": e, "observed": repr(out)[:300]})
    judge(ctx, recs, meta, "toeplitz of every enumerated vector")


def _run_lev(al, c, rr, p, route, n):
    kind = c["kind"]
    if kind == "ka":
        xs = L.route_values(L.frs(c["x"]), route)
        if xs is None:
            return None
        if route == "mixed":             # the documented composition
            return L.call(lambda: al.levinson_durbin(al.acorr(as_arg(xs, n), p), p))
        return L.call(al.lpc.kautocor, as_arg(xs, n), p)
    src = L.frs(c["r"]) if kind == "ld" else rr
    vs = L.route_values(src, route)
    if vs is None:
        return None
    if p == len(vs) - 1 and n % 3 == 0:
        return L.call(al.levinson_durbin, as_arg(vs, n))          # default order
    return L.call(al.levinson_durbin, as_arg(vs, n), p)


# ---- M3 ----------------------------------------------------------------------------------------------
def table_json(out):
    """nested list of library numbers -> nested list of [n, d]; None when something is not an exact number"""
    if isinstance(out, list):
        sub = [table_json(o) for o in out]
        return None if any(s is None for s in sub) else sub
    e = L.exactly(out)
    return None if e is None else L.rat(e)


def toeplitz_rec(v, e, out):
    tj = table_json(out) if e == "none" else None
    return {"kind": "toep", "v": L.rats(v), "out": tj if tj is not None else BAD}


def solution_rec(kind, inp, order, f):
    num = list(f.numerator)
    num = num + [0] * (order + 1 - len(num))
    fa = L.fixed_list(num)
    fe = L.fixed_list([getattr(f, "error", None)])
    if fa is None or fe is None:
        return None
    sa, a = fa
    se = min(fe[0], sa)
    e = L.fixed(L.exactly(f.error), se)
    rec = {"kind": kind, "order": order, "a": a, "sa": sa, "e": e, "se": se}
    rec["r" if kind == "ld" else "x"] = L.rats(inp)
    return rec


def judge(ctx, recs, meta, what):
    if not recs:
        return
    bad = tracecheck.run_records(ctx, "LpcTrace", {"Cases": "{}", "ThenStepDown": "FALSE"}, recs,
                                 what="C10 " + what, chunk=500)
    ctx.traces += len(recs) - len(bad)
    ctx.log("M3: %d records (%s) judged by TLC, %d rejected" % (len(recs), what, len(bad)))
    for i, info in sorted(bad.items()):
        k = recs[i - 1]["kind"]
        name = {"toep": "toeplitz", "acorr": "acorr", "lagm": "lag_matrix", "ld": "levinson",
                "ka": "kautocor", "kc": "kcovar"}[k]
        clause = info[0]
        if k in ("ld", "ka", "kc"):
            clause = "error" if clause == "error" else "normal-equations"
            ctx.violation("C10:%s-%s" % (name, clause), dict(meta[i - 1], clause=info[0]))
        else:
            ctx.violation("C10:%s" % name, dict(meta[i - 1], clause=info[0]))


def gram(x, p, lo, hi):
    """integer Gram table of the block, used to screen magnitudes / conditioning of random inputs only"""
    def at(n):
        return x[n - 1] if 1 <= n <= len(x) else 0
    return [[sum(at(n - i) * at(n - j) for n in range(lo, hi + 1)) for j in range(p + 1)] for i in range(p + 1)]


def screen(c, a, pivots):
    """inputs-only screen: representable in TLC's 32-bit limbs and not ill conditioned"""
    if a is None:
        return False
    if any(abs(v) >= 4 for v in a):
        return False
    if max(sum(abs(v) for v in row) for row in c) >= 4096:
        return False
    scale = max(abs(c[0][0]), 1)
    return all(abs(pv) * 32 >= scale for pv in pivots)


def m3(ctx, al, count):
    rng = ctx.rng
    recs, meta = [], []
    made = {"ld": 0, "ka": 0, "kc": 0, "tables": 0}
    kc_refused = 0
    tries = 0
    while min(made["ld"], made["ka"], made["kc"]) < count and tries < count * 200:
        tries += 1
        kind = rng.choice(["ld", "ka", "kc"])
        if made[kind] >= count:
            continue
        if kind == "ld":
            n = rng.randint(2, 8)
            r0 = rng.randint(4, 40)
            r = [r0] + [rng.randint(-r0, r0) for _ in range(n - 1)]
            order = rng.randint(1, min(7, n + 1))
            ex = L.exact_levinson([Fraction(v) for v in r], order)
            rr = r + [0] * max(0, order + 1 - len(r))
            c = [[rr[abs(i - j)] for j in range(order + 1)] for i in range(order + 1)]
            if ex is None or not screen(c, ex[0], ex[1]):
                continue
            arg = [float(v) for v in r] if rng.random() < 0.3 else list(r)
            e, f = L.call(al.levinson_durbin, arg, order) if (order != n - 1 or rng.random() < 0.5) \
                else L.call(al.levinson_durbin, arg)
            inp = r
        else:
            n = rng.randint(3, 12)
            x = [rng.randint(-5, 5) for _ in range(n)]
            order = rng.randint(1, min(6, n + 1 if kind == "ka" else n - 1))
            if kind == "kc" and rng.random() < 0.3:
                # high orders on longer blocks (every basis vector of the Gram-Schmidt machine matters)
                n = rng.randint(15, 20)
                x = [rng.randint(-3, 3) for _ in range(n)]
                order = rng.randint(7, 9)
            c = gram(x, order, 1, n + order) if kind == "ka" else gram(x, order, order + 1, n)
            sol = L.solve_gram(c)
            if sol is None or not screen(c, sol[0], sol[1]):
                continue
            arg = tuple(x) if rng.random() < 0.3 else list(x)
            if rng.random() < 0.2:
                arg = [float(v) for v in x]
            fn = al.lpc.kautocor if kind == "ka" else al.lpc.kcovar
            if len(recs) % 2:
                # the same block has been analysed before at other orders (higher first): an answer depends on the
                # block and the order asked, not on what was asked earlier
                for other in (order + 2, order + 1):
                    if other <= (n + 1 if kind == "ka" else n - 1):
                        L.call(fn, list(arg), other)
            e, f = L.call(fn, arg, order)
            inp = x
        info = {"kind": kind, "input": list(inp), "order": order, "raised": e}
        if e != "none":
            if kind == "kc":
                kc_refused += 1          # "when it returns"
                continue
            ctx.violation("C10:%s-normal-equations" % ("levinson" if kind == "ld" else "kautocor"), info)
            made[kind] += 1
            continue
        rec = solution_rec(kind, inp, order, f)
        info.update(numerator=L.show(f.numerator), error=repr(getattr(f, "error", None)))
        if rec is None:
            ctx.violation("C10:%s-normal-equations" % {"ld": "levinson", "ka": "kautocor", "kc": "kcovar"}[kind],
                          dict(info, why="numerator / error are not finite numbers"))
            made[kind] += 1
            continue
        recs.append(rec)
        meta.append(info)
        made[kind] += 1
        ctx.count(1, nontrivial_key=("m3", len(recs)) if order >= 3 else None)
    for k in ("ld", "ka", "kc"):
        L.require_some(made[k], "M3 %s records" % k)
    # the tables on rational blocks
    pool = [Fraction(n, d) for d in (1, 1, 2, 3) for n in range(-4, 5)]
    for _ in range(max(20, count // 3)):
        n = rng.randint(1, 9)
        x = [rng.choice(pool) for _ in range(n)]
        lag = rng.randint(0, n + 2)
        e, out = L.call(al.acorr, list(x), lag)
        tj = table_json(out) if e == "none" else None
        recs.append({"kind": "acorr", "x": L.rats(x), "maxlag": lag, "out": tj if tj is not None else BAD})
        meta.append({"acorr of": L.show(x), "max_lag": lag, "err": e, "observed": repr(out)[:300]})
        lag = rng.randint(0, n - 1)
        e, out = L.call(al.lag_matrix, list(x), lag)
        tj = table_json(out) if e == "none" else None
        recs.append({"kind": "lagm", "x": L.rats(x), "maxlag": lag, "out": tj if tj is not None else BAD})
        meta.append({"lag_matrix of": L.show(x), "max_lag": lag, "err": e, "observed": repr(out)[:300]})
        e, out = L.call(al.toeplitz, list(x))
        recs.append(toeplitz_rec(x, e, out))
        meta.append({"toeplitz of": L.show(x), "err": e, "observed": repr(out)[:300]})
        made["tables"] += 3
    ctx.log("M3: recorded %s (lpc.kcovar refused %d screened inputs: not covered by the statement)"
            % (made, kc_refused))
    if meta:
        ctx.sample({"recorded": meta[0]})
    judge(ctx, recs, meta, "recorded runs")


def check(ctx):
    al = common.import_audiolazy()
    ctx.rule = ("M2: every TLC state replayed (acorr/lag_matrix tables exactly; levinson_durbin/lpc.kautocor at the "
                "state's order and lpc.kcovar at its end within 1e-9*(1+|exact|) of the exported rationals, 4 argument "
                "routes); non-trivial = order >= 2.  M3: random blocks (len <= 12, order <= 6, |sample| <= 5) and "
                "integer autocorrelation vectors (order <= 7): TLC evaluates the normal-equation residuals and the "
                "error identity on the logged values; non-trivial = order >= 3")
    ctx.assumptions = [
        "singular systems (Levinson E_m = 0, kcovar beta = 0) are outside the quantifier: the exception the code "
        "raises there is logged as diagnostics only",
        "lpc.kcovar is judged only when it returns (statement: 'when it returns'); its ValueError/ZeroDivisionError "
        "exits are diagnostics",
        "levinson_durbin computes in floats even on Fraction input (Poly's absent powers are 0.0): results are "
        "compared with the exact rationals by |code-exact| <= 1e-9*(1+|exact|); grid systems have integer "
        "determinants >= 1 and entries <= 50, so honest rounding is < 1e-12 and distinct exact solutions differ by > 1e-6",
        "M3 inputs are screened from the inputs alone (exact solution |a_j| < 4, pivots >= scale/32, row sums < 4096) so "
        "that TLC's 32-bit limb arithmetic cannot overflow and conditioning is bounded",
        "numpy strategies (lpc.nautocor, lpc.covar, lpc.autocor below order 100) are out of scope: numpy is absent",
    ]
    if ctx.thorough:
        m2(ctx, al, "LpcC10T.cfg")
        m3(ctx, al, 1500)
    else:
        m2(ctx, al, "LpcC10Q.cfg")
        m3(ctx, al, 150)
    ctx.exhaustive = True
