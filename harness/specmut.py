"""Non-vacuity of the TLC model checking (mechanism M1), reproducibly.

    /venv/bin/python harness/specmut.py [-j N] [-k] ['<glob>' ...]

Every file /verif/spec_mutants/<name>.py defines

    S = dict(module="<root module, e.g. FilterC04Q>", cfg="<cfg file in the module's directory>",
             file="<path under /verif/spec of the file to edit>", old="<text occurring exactly once>",
             new="<replacement>", expect="<invariant / property TLC must report>")

and optionally `more=[(file, old, new), ...]` (further edits of the same mutation, e.g. the same wrong rule
written into the operational AND the definition layer so that only the property-shaped invariant can see it),
`pcal=True` (re-translate `file` with `pcal -nocfg` after the edit), `timeout=<s>` (default 900),
`workers=<n>` (default 16; 1 makes the breadth-first search deterministic, for mutations where a second
invariant fails on deeper states and 16 workers would race).
`expect` is the name TLC prints (`Invariant X is violated`, `Action property X is violated`), or
  "temporal"   a liveness property failed (TLC does not name it),
  "deadlock",  "assumption",
  "any"        any violation (not an evaluation error),
  "error"      TLC must stop with an evaluation error,
  "none"       TLC must PASS: a documented equivalent mutation,
  "A|B"        alternatives (the mutation breaks both and the workers race).

For each mutant /verif/spec is copied to a scratch directory (removed afterwards; /verif/spec is never
edited), the edit is applied to the copy, and TLC runs on module + cfg FROM THE COPY (tlc.SPEC_DIRS is
pointed at the copy's sub-directories, so -DTLA-Library resolves every EXTENDS there). Verdicts:
  violated <Name>   ok if it matches expect
  NOT DETECTED      TLC passed: the invariants are vacuous for this change, or the mutation is equivalent
  ERROR             TLC evaluation error / time-out / stale pattern
Exit 1 if any mutant is not as expected. -j N runs N mutants at a time (each in its own process and copy).

The default glob `*` takes the files directly in /verif/spec_mutants.  /verif/spec_mutants/suspects/ holds
mutations that TLC does NOT detect and that are not equivalent (blind spots of M1, each with its analysis in
the file's comment); `expect` names the invariant one would hope for, so
    /venv/bin/python harness/specmut.py 'suspects/*'
prints NOT DETECTED for each and exits 1 until the specification is strengthened.
"""
import concurrent.futures
import glob
import importlib.util
import json
import os
import re
import shutil
import subprocess
import sys
import tempfile
import time

HERE = os.path.dirname(os.path.abspath(__file__))
VERIF = os.path.dirname(HERE)
sys.path.insert(0, HERE)
import tlc  # noqa: E402

MUTDIR = os.path.join(VERIF, "spec_mutants")
SUBDIRS = ("lib", "core", "stream", "dsp", "io", "trace")
REQUIRED = ("module", "cfg", "file", "old", "new", "expect")


def load(path):
    spec = importlib.util.spec_from_file_location("specmut_" + os.path.basename(path)[:-3], path)
    m = importlib.util.module_from_spec(spec)
    spec.loader.exec_module(m)
    return m.S


def pcal(path):
    p = subprocess.run(["java", "-cp", tlc.JARS[0], "pcal.trans", "-nocfg", path], cwd=os.path.dirname(path),
                       stdout=subprocess.PIPE, stderr=subprocess.STDOUT, universal_newlines=True)
    if p.returncode != 0 or "Translation completed" not in p.stdout:
        raise tlc.MachineryError("pcal failed on %s:\n%s" % (path, p.stdout[-2000:]))


def run_one(path):
    """-> dict(name, module, cfg, expect, observed, ok, seconds, detail)"""
    name = os.path.basename(path)[:-3]
    res = dict(name=name, module="?", cfg="?", expect="?", observed="ERROR", ok=False, seconds=0.0, detail="")
    try:
        s = load(path)
        missing = [k for k in REQUIRED if k not in s]
        if missing:
            res["detail"] = "S lacks %s" % ", ".join(missing)
            return res
    except Exception as ex:                                   # a broken mutant file is reported, not raised
        res["detail"] = "cannot load: %r" % (ex,)
        return res
    res.update(module=s["module"], cfg=s["cfg"], expect=s["expect"])
    d = tempfile.mkdtemp(prefix="specmut-")
    saved = list(tlc.SPEC_DIRS)
    t0 = time.time()
    try:
        copy = os.path.join(d, "spec")
        shutil.copytree(tlc.SPEC, copy)
        target = os.path.join(copy, s["file"])
        for rel, old, new in [(s["file"], s["old"], s["new"])] + [tuple(e) for e in s.get("more", ())]:
            src = open(os.path.join(copy, rel)).read()
            n = src.count(old)
            if n != 1 or old == new:
                res["detail"] = "STALE: pattern occurs %d times in %s%s: %r" % (
                    n, rel, " (old == new)" if old == new else "", old[:60])
                return res
            open(os.path.join(copy, rel), "w").write(src.replace(old, new))
        if s.get("pcal"):
            pcal(target)
        tlc.SPEC_DIRS[:] = [os.path.join(copy, sub) for sub in SUBDIRS]
        root = tlc.find_module(s["module"])
        assert root.startswith(copy + os.sep)
        t0 = time.time()
        try:
            r = tlc.run(root, os.path.join(os.path.dirname(root), s["cfg"]), workers=s.get("workers", 16),
                        coverage=False, timeout=s.get("timeout", 900))
        except tlc.MachineryError as ex:
            res["detail"] = str(ex)[:300]
            return res
        res["seconds"] = r.wall
        res["states"] = r.distinct
        const = re.search(r"Error: The invariant of (\S+) is equal to FALSE", r.out)
        if r.ok:
            res["observed"] = "NOT DETECTED"
        elif const and r.violated in (None, "tlc-error"):
            # an invariant without variables (a fact about constant tables) is decided before the search starts
            res["observed"] = "violated " + const.group(1)
        elif r.violated in (None, "tlc-error"):
            res["observed"] = "ERROR"
            errs = [e for e in r.errors if "evaluat" not in e.lower() or len(r.errors) == 1] or r.errors
            res["detail"] = " / ".join(errs[:2])[:300] or "rc=%s incomplete=%s" % (r.rc, r.incomplete)
            if not r.errors:
                res["detail"] += " " + " ".join(r.out.splitlines()[-5:])[:300]
        else:
            res["observed"] = "violated " + r.violated
        res["ok"] = matches(s["expect"], res["observed"])
        return res
    finally:
        res["seconds"] = res["seconds"] or (time.time() - t0)
        tlc.SPEC_DIRS[:] = saved
        shutil.rmtree(d, ignore_errors=True)


def matches(expect, observed):
    if expect == "none":
        return observed == "NOT DETECTED"
    if expect == "error":
        return observed == "ERROR"
    if not observed.startswith("violated "):
        return False
    got = observed[len("violated "):]
    return expect == "any" or got in expect.split("|")


def fmt(res):
    tag = "ok" if res["ok"] else "UNEXPECTED"
    s = "%-34s %-34s expect %-24s %-28s %6.1fs  %s" % (
        res["name"], "%s/%s" % (res["module"], res["cfg"]), res["expect"], res["observed"], res["seconds"], tag)
    if res["detail"] and (not res["ok"] or res["observed"] == "ERROR"):
        s += "\n      " + res["detail"]
    return s


def run_sub(path):
    """one mutant in its own process (tlc.SPEC_DIRS is process-global, so parallel runs need processes)"""
    p = subprocess.run([sys.executable, os.path.abspath(__file__), "--one", path], stdout=subprocess.PIPE,
                       stderr=subprocess.PIPE, universal_newlines=True)
    for ln in reversed(p.stdout.splitlines()):
        if ln.startswith("RESULT "):
            return json.loads(ln[7:])
    return dict(name=os.path.basename(path)[:-3], module="?", cfg="?", expect="?", observed="ERROR", ok=False,
                seconds=0.0, detail="runner died rc=%s %s" % (p.returncode, (p.stderr or p.stdout)[-300:]))


def main(argv):
    jobs = 1
    pats = []
    it = iter(argv)
    for a in it:
        if a == "--one":
            print("RESULT " + json.dumps(run_one(next(it))))
            return 0
        if a == "-j":
            jobs = int(next(it))
        elif re.match(r"^-j\d+$", a):
            jobs = int(a[2:])
        else:
            pats.append(a[:-3] if a.endswith(".py") else a)
    files = sorted(set(f for p in (pats or ["*"]) for f in glob.glob(os.path.join(MUTDIR, p + ".py"))))
    if not files:
        print("no mutants match %s" % (pats or ["*"]))
        return 1
    results = []
    if jobs <= 1:
        for f in files:
            results.append(run_one(f))
            print(fmt(results[-1]))
            sys.stdout.flush()
    else:
        with concurrent.futures.ThreadPoolExecutor(jobs) as ex:
            for res in ex.map(run_sub, files):
                results.append(res)
                print(fmt(res))
                sys.stdout.flush()
    bad = [r for r in results if not r["ok"]]
    print("%d spec mutants, %d not as expected%s" % (len(results), len(bad),
                                                      (": " + " ".join(r["name"] for r in bad)) if bad else ""))
    return 1 if bad else 0


if __name__ == "__main__":
    sys.exit(main(sys.argv[1:]))
