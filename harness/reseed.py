"""Re-run the stored seeded regressions (/verif/seeded/<name>/patch.diff) against the current checks.

    /venv/bin/python harness/reseed.py ['<glob>' ...]       e.g.  'c17_*'

Each patch is applied to a scratch copy of /repo's package (never to /repo), the property's quick check runs with
VERIF_REPO pointing at the copy, and the verdict is compared with meta.json (`detected`).  Exit 1 if any differs.
"""
import glob
import json
import os
import shutil
import subprocess
import sys
import tempfile

VERIF = os.path.dirname(os.path.dirname(os.path.abspath(__file__)))


def main(argv):
    pats = argv or ["*"]
    dirs = sorted(set(d for p in pats for d in glob.glob(os.path.join(VERIF, "seeded", p)) if os.path.isdir(d)))
    bad = 0
    for d in dirs:
        meta = json.load(open(os.path.join(d, "meta.json")))
        pid = meta["property"]
        tmp = tempfile.mkdtemp(prefix="reseed-")
        try:
            shutil.copytree("/repo/audiolazy", os.path.join(tmp, "audiolazy"),
                            ignore=shutil.ignore_patterns("__pycache__"))
            p = subprocess.run(["patch", "-p1", "-s", "--no-backup-if-mismatch", "-i", os.path.join(d, "patch.diff")], cwd=tmp,
                               stdout=subprocess.PIPE, stderr=subprocess.STDOUT, universal_newlines=True)
            if p.returncode != 0:
                print("%-12s patch does not apply any more: %s" % (os.path.basename(d), p.stdout.strip()[:120]))
                bad += 1
                continue
            env = dict(os.environ, VERIF_REPO=tmp, VERIF_NO_EVIDENCE="1")
            r = subprocess.run([os.path.join(VERIF, "vf"), "check", pid, "--tier", "quick"], env=env,
                               stdout=subprocess.PIPE, stderr=subprocess.STDOUT, universal_newlines=True)
            keys = sorted(set(l.strip()[4:] for l in r.stdout.splitlines() if l.startswith("  key=")))
            detected = r.returncode == 1 and any(l.startswith("VIOLATION") for l in r.stdout.splitlines())
            want = bool(meta.get("detected", True))
            ok = detected == want and r.returncode in (0, 1)
            bad += 0 if ok else 1
            print("%-12s %s rc=%d %s %s" % (os.path.basename(d), "ok " if ok else "DIFFERS", r.returncode,
                                            "detected" if detected else "not flagged", " ".join(keys)[:160]))
            sys.stdout.flush()
        finally:
            shutil.rmtree(tmp, ignore_errors=True)
    print("%d seeds, %d not as recorded" % (len(dirs), bad))
    return 1 if bad else 0


if __name__ == "__main__":
    sys.exit(main(sys.argv[1:]))
