"""C20 - sample-wise analysis tools equal their defining formulas.

M1  TLC: spec/dsp/Analysis.tla on the AnalysisC20 grid.  Operational machines (deque + running mean, the
    ZFilter strategies as cases of module Filter's register machine, running total, delay line + abs + deque,
    one-pole recursion, clip branches, the two zcross loops, the unwrap delta accumulator) against the
    definition layer (mean of the last `size` samples, running sums, mean |x[n]-x[n-lag]|, low-pass of
    |x| / x^2, saturation, "most recent sample outside the band", the three unwrap clauses).  Linear tools
    run on linear-form samples (= every input of that length), the others on every input over a pool.
M2  spec -> code: every state TLC reached (case, input so far, outputs so far) is replayed on the real
    tools through every strategy alias / container kind / number type and compared with the exported
    `out`.  unwrap's statement is relational: an output differing from the operational model is handed to
    TLC (AnalysisTrace) and is a violation only if the definition layer rejects it.
M3  code -> spec: seeded random longer inputs (rationals k/4, larger sizes / lags / limits) are run through
    the real tools and the records judged by TLC with the definition-layer operators of Analysis.tla.
"""
import math
import os
import re
from fractions import Fraction

import common
import tlaval
import tlc
import tracecheck
from exact import LinForm, frac, rat, is_scalar

TOL = 1e-9
SNAP_DEN = 4096          # lattice for snapping float results: exact results have denominators <= 16 * 16
CUTOFFS = (math.pi / 512, math.pi / 8, math.pi / 2, 0.1, 2.5)


def fr(p):
    return Fraction(p[0], p[1])


def close(v, e):
    return abs(v - e) <= TOL * (1 + abs(e))


# --------------------------------------------------------------------------------------------------
# dump reader: tlaval.parse with a memo on the value text (the `case` record, the machine state and the
# empty registers repeat across most states, which halves the parsing time of the large dumps)

def read_dump_memo(path):
    memo = {}

    def state(block):
        st = {}
        for part in re.split(r"(?m)^/\\ ", block.strip()):
            if part.strip():
                name, _, val = part.partition(" = ")
                if val not in memo:
                    if len(memo) > 200000:
                        memo.clear()
                    memo[val] = tlaval.parse(val)
                st[name.strip()] = memo[val]
        return st

    buf = []
    with open(path) as fh:
        for line in fh:
            if line.startswith("State ") and line.rstrip().endswith(":"):
                if buf:
                    yield state("".join(buf))
                buf = []
            else:
                buf.append(line)
    if "".join(buf).strip():
        yield state("".join(buf))


# --------------------------------------------------------------------------------------------------
# running the real tools

def container(items, kind, al):
    if kind == "iter":
        return iter(list(items))
    if kind == "gen":
        return (x for x in list(items))
    if kind == "stream":
        return al.Stream(list(items))
    if kind == "tuple":
        return tuple(items)
    return list(items)


def observe(fn):
    """('none', [items]) or (exception class name, [])"""
    try:
        return "none", list(fn())
    except Exception as ex:          # noqa: the class name is the observation
        return type(ex).__name__, []


def observe_interleaved(mk1, mk2):
    """Two output streams consumed alternately, one item each in turn."""
    res = [["none", []], ["none", []]]
    its = [None, None]
    for k, mk in enumerate((mk1, mk2)):
        try:
            its[k] = iter(mk())
        except Exception as ex:
            res[k][0] = type(ex).__name__
    live = [it is not None for it in its]
    while any(live):
        for k in (0, 1):
            if not live[k]:
                continue
            try:
                res[k][1].append(next(its[k]))
            except StopIteration:
                live[k] = False
            except Exception as ex:
                res[k][0] = type(ex).__name__
                live[k] = False
    return (res[0][0], res[0][1]), (res[1][0], res[1][1])


def number(f, kind):
    """A Fraction as the number type `kind` (all pool values are dyadic, so floats are exact)."""
    if kind == "float":
        return float(f)
    if kind == "int" and f.denominator == 1:
        return int(f)
    return f


def lowpass_params(al, cutoff):
    """gain and pole of the code's own lowpass(cutoff); the envelope model is g / (1 - R z^-1)."""
    lp = al.lowpass(cutoff)
    num, den = list(lp.numerator), list(lp.denominator)
    if len(num) != 1 or len(den) != 2 or den[0] != 1:
        raise tlc.MachineryError("lowpass(%r) is not a one-pole filter g/(1 - R z^-1): %r / %r" % (cutoff, num, den))
    return float(num[0]), -float(den[1])


def aliases(al, tool, strat):
    if tool == "maverage":
        return {"deque": [("maverage.deque", al.maverage.deque), ("maverage", al.maverage)],
                "recursive": [("maverage.recursive", al.maverage.recursive), ("maverage.feedback", al.maverage.feedback)],
                "fir": [("maverage.fir", al.maverage.fir)]}[strat]
    if tool == "accumulate":
        return {"accumulate": [("accumulate.accumulate", al.accumulate.accumulate),
                               ("accumulate.itertools", al.accumulate.itertools), ("accumulate", al.accumulate)],
                "func": [("accumulate.func", al.accumulate.func), ("accumulate.pure_python", al.accumulate.pure_python)],
                "z": [("accumulate.z", al.accumulate.z)]}[strat]
    if tool == "envelope":
        r = [("envelope." + strat, al.envelope[strat])]
        if strat == "rms":
            r.append(("envelope", al.envelope))
        return r
    raise KeyError(tool)


def tool_name(case):
    return case["tool"] + ("." + case["strat"] if "strat" in case else "")


# --------------------------------------------------------------------------------------------------
# M2: replay of the dumped states

class Replayer(object):
    def __init__(self, ctx, al, maxlen):
        self.ctx, self.al, self.maxlen = ctx, al, maxlen
        self.ns = maxlen + 1
        self.lp = {c: lowpass_params(al, c) for c in CUTOFFS}
        self.second_opinion = []          # (record for TLC, info) of unwrap outputs differing from the model
        self.k = 0
        self.coef_seen = set()
        self.second_seen = set()

    def coef_diag(self, case, label, filt):
        """Diagnostic only (the statement speaks of outputs): the ZFilter a strategy builds has the coefficient
        lists the spec's case constructor gives to the register machine."""
        key = (label, case.get("size"))
        if key in self.coef_seen:
            return
        self.coef_seen.add(key)
        try:
            num, den = [frac(v) for v in filt.numerator], [frac(v) for v in filt.denominator]
        except Exception as ex:
            self.ctx.log("diagnostic: %s: cannot read coefficients (%s)" % (label, ex))
            return
        b, a = [fr(c["v"]) for c in case["b"]], [fr(c["v"]) for c in case["a"]]
        same = len(num) == len(b) and len(den) == len(a) and all(close(x, y) for x, y in zip(num + den, b + a))
        if not same:
            self.ctx.log("diagnostic: %s(%s) builds %s / %s, the model's constructor gives %s / %s"
                         % (label, case.get("size", ""), num, den, b, a))

    # ---- verdict helpers
    def bad(self, case, cls, info):
        self.ctx.violation("C20:%s:%s" % (tool_name(case), cls), info)

    def cmp_exact(self, case, label, xs, exp, err, got, info):
        """exact tools: observed items must be the spec's rationals / ints."""
        info = dict(info, call=label, expected=[str(e) for e in exp], err=err, observed=[repr(g) for g in got][:12])
        if err != "none":
            self.bad(case, "empty-input" if not xs else "exception", info)
            return False
        if len(got) != len(exp):
            self.bad(case, "length", info)
            return False
        for g, e in zip(got, exp):
            if not is_scalar(g) or frac(g) != e:
                self.bad(case, "value", info)
                return False
        return True

    def cmp_float(self, case, label, xs, exp, err, got, info):
        """tools that leave exact arithmetic: |code - exact| <= 1e-9 (1 + |exact|)."""
        info = dict(info, call=label, expected=[float(e) for e in exp], err=err, observed=[repr(g) for g in got][:12])
        if err != "none":
            self.bad(case, "empty-input" if not xs else "exception", info)
            return False
        if len(got) != len(exp):
            self.bad(case, "length", info)
            return False
        for g, e in zip(got, exp):
            if not is_scalar(g) or not close(float(g), float(e)):
                self.bad(case, "value", info)
                return False
        return True

    def cmp_lin(self, case, label, n, exp, err, got, info, tol):
        info = dict(info, call=label, n=n, err=err, observed=[repr(g) for g in got][:8],
                    expected=[repr(LinForm({i + 1: fr(p) for i, p in enumerate(v) if p[0]})) for v in exp])
        if err != "none":
            self.bad(case, "empty-input" if n == 0 else "exception", info)
            return False
        if len(got) != len(exp):
            self.bad(case, "length", info)
            return False
        for g, vec in zip(got, exp):
            if isinstance(g, LinForm):
                c = g.c
            elif is_scalar(g) and g == 0:
                c = {}
            else:
                self.bad(case, "value", info)
                return False
            if any(k < 1 or k > self.ns for k in c):
                self.bad(case, "value", info)
                return False
            for i in range(1, self.ns + 1):
                e, v = fr(vec[i - 1]), c.get(i, Fraction(0))
                if (not close(v, e)) if tol else (v != e):
                    self.bad(case, "value", info)
                    return False
        return True

    # ---- one state
    def state(self, s):
        self.k += 1
        case, n, xs, exp = s["case"], s["n"], s["xs"], s["out"]
        tool = case["tool"]
        if tool in ("maverage", "accumulate"):
            full = n == self.maxlen
        else:
            full = n == case["len"]
        getattr(self, "do_" + tool)(case, n, xs, exp, s, full)

    def pick(self, seq, full):
        return list(seq) if full else [seq[self.k % len(seq)]]

    def do_maverage(self, case, n, xs, exp, s, full):
        al, size = self.al, case["size"]
        x = [LinForm.sym(i) for i in range(1, n + 1)]
        zeros = [("sym", LinForm.sym(self.maxlen + 1))] if case["zero"] == "sym" else \
            self.pick([("0", 0), ("0.0", 0.0), ("default", None)], full)
        for label, f in self.pick(aliases(al, "maverage", case["strat"]), full):
            if "b" in case:
                self.coef_diag(case, label, f(size))
            for kind in self.pick(("list", "iter", "stream"), full):
                for zl, z in zeros:
                    kw = {} if z is None else {"zero": z}
                    err, got = observe(lambda: f(size)(container(x, kind, al), **kw))
                    self.ctx.count(1, nontrivial_key=(label, size, case["zero"], n) if n >= 2 else None)
                    ok = self.cmp_lin(case, label, n, exp, err, got,
                                      {"size": size, "zero": zl, "input": kind}, tol=True)
                    if ok and self.k % 97 == 0:
                        self.ctx.sample({"call": "%s(%d)(x1..x%d, zero=%s)" % (label, size, n, zl),
                                         "observed_last": repr(got[-1]) if got else None})

    def do_accumulate(self, case, n, xs, exp, s, full):
        al = self.al
        x = [LinForm.sym(i) for i in range(1, n + 1)]
        for label, f in self.pick(aliases(al, "accumulate", case["strat"]), full):
            if "b" in case:
                self.coef_diag(case, label, f)
            for kind in self.pick(("list", "iter", "stream"), full):
                err, got = observe(lambda: f(container(x, kind, al)))
                self.ctx.count(1, nontrivial_key=(label, n) if n >= 2 else None)
                self.cmp_lin(case, label, n, exp, err, got, {"input": kind}, tol=False)

    def do_amdf(self, case, n, xs, exp, s, full):
        al = self.al
        lag, size, zero = case["lag"], case["size"], fr(case["zero"])
        xf = [fr(p) for p in xs]
        e = [fr(v[0]) for v in exp]
        for nk in self.pick(("frac", "float"), full):
            for kind in self.pick(("list", "iter", "stream"), full):
                x = [number(v, nk) for v in xf]
                kws = [{"zero": number(zero, nk)}] + ([{}] if zero == 0 and full else [])
                for kw in kws:
                    err, got = observe(lambda: al.amdf(lag, size)(container(x, kind, al), **kw))
                    self.ctx.count(1, nontrivial_key=("amdf", lag, size, case["zero"], tuple(xs)) if n >= 2 else None)
                    self.cmp_float(case, "amdf(%d, %d)" % (lag, size), xs, e, err, got,
                                   {"x": [str(v) for v in xf], "zero": str(zero), "numbers": nk, "input": kind})

    def do_envelope(self, case, n, xs, exp, s, full):
        al, strat = self.al, case["strat"]
        xf = [fr(p) for p in xs]
        for label, f in self.pick(aliases(al, "envelope", strat), full):
            for cutoff in self.pick(CUTOFFS + (None,), full):
                g, R = self.lp[CUTOFFS[0] if cutoff is None else cutoff]
                e = []
                for poly in exp:                 # y = g * sum_k c_k R^k  (Horner, highest power first)
                    acc = 0.0
                    for c in reversed(poly):
                        acc = acc * R + float(fr(c))
                    acc *= g
                    e.append(math.sqrt(acc) if strat == "rms" else acc)
                nk = ("frac", "float")[self.k % 2]
                x = [number(v, nk) for v in xf]
                args = () if cutoff is None else (cutoff,)
                err, got = observe(lambda: f(container(x, ("list", "iter", "stream")[self.k % 3], al), *args))
                self.ctx.count(1, nontrivial_key=(label, cutoff, tuple(xs)) if n >= 2 else None)
                self.cmp_float(case, label, xs, e, err, got,
                               {"x": [str(v) for v in xf], "cutoff": cutoff, "gain": g, "pole": R, "numbers": nk})

    def do_clip(self, case, n, xs, exp, s, full):
        al = self.al
        xf = [fr(p) for p in xs]
        lo = fr(case["low"][0]) if case["low"] else None
        hi = fr(case["high"][0]) if case["high"] else None
        e = [fr(p) for p in exp]
        for nk in self.pick(("frac", "float", "int"), full):
            x = [number(v, nk) for v in xf]
            l, h = (None if lo is None else number(lo, nk)), (None if hi is None else number(hi, nk))
            kind = ("list", "iter", "stream")[self.k % 3]
            info = {"x": [str(v) for v in xf], "low": str(lo), "high": str(hi), "numbers": nk, "input": kind}
            err, got = observe(lambda: al.clip(container(x, kind, al), l, h))
            self.ctx.count(1, nontrivial_key=("clip", str(lo), str(hi), tuple(xs)) if n >= 1 else None)
            if s["err"] != "none" or (lo is not None and hi is not None and hi < lo):
                # limits in the wrong order: no sample can satisfy both bounds, the call must refuse
                if s["err"] != "none" and err == "none":
                    self.bad(case, "no-refusal", dict(info, expected_err=s["err"], observed=[repr(g) for g in got]))
                elif s["err"] != "none" and err != s["err"]:
                    self.ctx.log("diagnostic: clip(low=%s, high=%s) raised %s, model says %s" % (lo, hi, err, s["err"]))
                continue
            if not self.cmp_exact(case, "clip", xs, e, err, got, info):
                continue
            # idempotence on the real code: clipping the clipped signal changes nothing
            err2, got2 = observe(lambda: al.clip(al.clip(container(x, kind, al), l, h), l, h))
            self.cmp_exact(case, "clip(clip(.))", xs, e, err2, got2, info)
            if lo is None and hi is None and self.k % 2 and nk == "frac":
                err3, got3 = observe(lambda: al.clip(x, low=None, high=None))
                self.cmp_exact(case, "clip(low=None, high=None)", xs, e, err3, got3, info)
            if lo == -1 and hi == 1:                      # the documented defaults
                err4, got4 = observe(lambda: al.clip(container(x, kind, al)))
                self.cmp_exact(case, "clip(x)", xs, e, err4, got4, info)

    def do_zcross(self, case, n, xs, exp, s, full):
        al = self.al
        xf = [fr(p) for p in xs]
        h, fs = fr(case["hyst"]), fr(case["fs"])
        e = [Fraction(v) for v in exp]
        for nk in self.pick(("frac", "float", "int"), full):
            x = [number(v, nk) for v in xf]
            kind = ("list", "iter", "stream")[self.k % 3]
            kws = [{"hysteresis": number(h, nk), "first_sign": number(fs, nk)}]
            if full and h == 0 and fs == 0:
                kws.append({})
            for kw in kws:
                err, got = observe(lambda: al.zcross(container(x, kind, al), **kw))
                self.ctx.count(1, nontrivial_key=("zcross", str(h), str(fs), tuple(xs)) if n >= 2 else None)
                ok = self.cmp_exact(case, "zcross", xs, e, err, got,
                                    {"x": [str(v) for v in xf], "hysteresis": str(h), "first_sign": str(fs),
                                     "numbers": nk, "input": kind})
                if ok and self.k % 4001 == 0:
                    self.ctx.sample({"call": "zcross(%s, hysteresis=%s, first_sign=%s)" % ([str(v) for v in xf], h, fs),
                                     "observed": got})

    def do_unwrap(self, case, n, xs, exp, s, full):
        al = self.al
        xf = [fr(p) for p in xs]
        md, step = fr(case["md"]), fr(case["step"])
        e = [fr(p) for p in exp]
        for nk in self.pick(("frac", "float"), full):
            x = [number(v, nk) for v in xf]
            kind = ("list", "iter", "stream")[self.k % 3]
            err, got = observe(lambda: al.unwrap(container(x, kind, al), max_delta=number(md, nk), step=number(step, nk)))
            self.ctx.count(1, nontrivial_key=("unwrap", str(md), str(step), tuple(xs)) if n >= 2 else None)
            info = {"x": [str(v) for v in xf], "max_delta": str(md), "step": str(step), "numbers": nk, "input": kind,
                    "err": err, "observed": [repr(g) for g in got], "model": [str(v) for v in e]}
            if err != "none":
                self.bad(case, "empty-input" if not xs else "exception", info)
                continue
            if len(got) == len(e) and all(is_scalar(g) and frac(g) == v for g, v in zip(got, e)):
                if self.k % 4001 == 0:
                    self.ctx.sample({"call": "unwrap(%s, max_delta=%s, step=%s)" % ([str(v) for v in xf], md, step),
                                     "observed": [str(g) for g in got]})
                continue
            # differs from the operational model: the statement's clauses decide (TLC, definition layer)
            if len(got) != len(e) or not all(is_scalar(g) for g in got):
                self.bad(case, "length", info)
                continue
            rec = {"tool": "unwrap", "md": rat(md), "step": rat(step), "x": [rat(v) for v in xf],
                   "out": [rat(g) for g in got], "err": "none", "near": True}
            key = repr(sorted(rec.items()))
            if key not in self.second_seen:          # number type / container variants give the same record
                self.second_seen.add(key)
                self.second_opinion.append((rec, info))

    def finish(self):
        if not self.second_opinion:
            return
        recs = [r for r, _ in self.second_opinion]
        bad = tracecheck.run_records(self.ctx, "AnalysisTrace", TRACE_CONSTANTS, recs,
                                     what="C20 unwrap outputs differing from the operational model", chunk=400)
        self.ctx.log("M2: %d unwrap outputs differ from the operational model; definition layer rejects %d"
                     % (len(recs), len(bad)))
        for i, (rec, info) in enumerate(self.second_opinion, 1):
            if i in bad:
                self.ctx.violation("C20:unwrap:%s" % bad[i][0], dict(info, clause=bad[i][0]))
            elif i <= 5:
                self.ctx.log("diagnostic (allowed by the statement): %s" % info)


TRACE_CONSTANTS = {"MaxLen": 1, "MaxMem": 0, "Cases": "{}"}
ACTIONS = ("StepFilt", "StepDeque", "StepAcc", "StepAmdf", "StepEnv", "RefuseClip", "StepClip",
           "StepZFirst", "StepZMain", "StepUnwrap")


def m2(ctx, al, cfg, maxlen):
    d = tlc.scratch_dir("c20")
    dump = os.path.join(d, "states")
    r = tlc.require_ok(tlc.run("AnalysisC20", cfg, dump=dump), "AnalysisC20", need_actions=ACTIONS)
    ctx.add_tlc(r, "Analysis (C20 grid): tool machines == defining formulas")
    ctx.log("M1: %d states, %.1f s" % (r.distinct, r.wall))
    rp = Replayer(ctx, al, maxlen)
    nstates = 0
    per_tool = {}
    for s in read_dump_memo(dump + ".dump"):
        nstates += 1
        per_tool[tool_name(s["case"])] = per_tool.get(tool_name(s["case"]), 0) + 1
        rp.state(s)
    if nstates != r.distinct:
        raise tlc.MachineryError("dump has %d states, TLC reported %d" % (nstates, r.distinct))
    rp.finish()
    ctx.traces += nstates
    ctx.extra["m2_states_per_tool"] = per_tool
    ctx.log("M2: %d spec states replayed (%s)" % (nstates, ", ".join("%s %d" % kv for kv in sorted(per_tool.items()))))


# --------------------------------------------------------------------------------------------------
# M3: recorded runs judged by TLC

def snap(v):
    """observed number -> (rational on the lattice, near?)"""
    if isinstance(v, bool) or not is_scalar(v):
        return [0, 1], False
    if isinstance(v, float) and (v != v or abs(v) > 1e6):
        return [0, 1], False
    f = frac(v)
    if f.denominator <= SNAP_DEN and abs(f.numerator) < (1 << 30):
        return rat(f), True
    q = f.limit_denominator(SNAP_DEN)
    if abs(q.numerator) >= (1 << 30):
        return [0, 1], False
    return rat(q), close(float(f), float(q))


def snap_all(vals):
    out, near = [], True
    for v in vals:
        q, ok = snap(v)
        out.append(q)
        near = near and ok
    return out, near


def q4(rng, lo=-12, hi=12):
    return Fraction(rng.randint(lo, hi), 4)


def m3(ctx, al, count, maxlen):
    rng = ctx.rng
    recs, meta = [], []

    def add(rec, info):
        recs.append(rec)
        meta.append(info)
        ctx.count(1, nontrivial_key=("m3", len(recs)) if len(rec["x"]) >= 3 else None)

    tools = ("maverage", "accumulate", "amdf", "envelope", "clip", "zcross", "unwrap")
    for j in range(count):
        tool = tools[j % len(tools)]
        n = rng.choice([0, 1, 2]) if rng.random() < 0.08 else rng.randint(3, maxlen)
        xf = [q4(rng) for _ in range(n)]
        nk = rng.choice(["frac", "frac", "float"])
        x = [number(v, nk) for v in xf]
        kind = rng.choice(["list", "iter", "stream", "gen"])
        base = {"tool": tool, "x": [rat(v) for v in xf]}
        info = {"tool": tool, "x": [str(v) for v in xf][:40], "numbers": nk, "input": kind}
        if tool == "maverage":
            strat = rng.choice(["deque", "recursive", "fir"])
            size = rng.randint(1, 16)
            zero = rng.choice([Fraction(0), q4(rng)])
            label, f = rng.choice(aliases(al, "maverage", strat))
            if j % 2:
                # one filter object used for two signals whose outputs are consumed interleaved: every output
                # stream is still the moving average of ITS input (a tool keeps no state between its calls)
                xf2 = [q4(rng) for _ in range(rng.randint(3, maxlen))]
                x2 = [number(v, nk) for v in xf2]
                flt = f(size)
                (err, got), (err2, got2) = observe_interleaved(
                    lambda: flt(container(x, kind, al), zero=number(zero, nk)),
                    lambda: flt(container(x2, kind, al), zero=number(zero, nk)))
                out2, near2 = snap_all(got2)
                add(dict(base, x=[rat(v) for v in xf2], strat=strat, size=size, zero=rat(zero), out=out2, near=near2,
                         err=err2),
                    dict(info, x=[str(v) for v in xf2][:40],
                         call="flt = %s(%d); flt(other, ...) interleaved with flt(x, zero=%s)" % (label, size, zero),
                         err=err2, observed=[repr(g) for g in got2][:40]))
                callstr = "flt = %s(%d); flt(x, zero=%s) interleaved with flt(other, ...)" % (label, size, zero)
            else:
                err, got = observe(lambda: f(size)(container(x, kind, al), zero=number(zero, nk)))
                callstr = "%s(%d)(x, zero=%s)" % (label, size, zero)
            out, near = snap_all(got)
            add(dict(base, strat=strat, size=size, zero=rat(zero), out=out, near=near, err=err),
                dict(info, call=callstr, err=err, observed=[repr(g) for g in got][:40]))
        elif tool == "accumulate":
            strat = rng.choice(["accumulate", "func", "z"])
            label, f = rng.choice(aliases(al, "accumulate", strat))
            err, got = observe(lambda: f(container(x, kind, al)))
            out, near = snap_all(got)
            add(dict(base, strat=strat, out=out, near=near, err=err),
                dict(info, call="%s(x)" % label, err=err, observed=[repr(g) for g in got][:40]))
        elif tool == "amdf":
            lag, size = rng.randint(1, 8), rng.randint(1, 12)
            zero = rng.choice([Fraction(0), Fraction(0), q4(rng)])
            if j % 2:
                # one amdf filter object, two signals consumed in turns (as with maverage above)
                xf2 = [q4(rng) for _ in range(rng.randint(3, maxlen))]
                x2 = [number(v, nk) for v in xf2]
                flt = al.amdf(lag, size)
                (err, got), (err2, got2) = observe_interleaved(
                    lambda: flt(container(x, kind, al), zero=number(zero, nk)),
                    lambda: flt(container(x2, kind, al), zero=number(zero, nk)))
                out2, near2 = snap_all(got2)
                add(dict(base, x=[rat(v) for v in xf2], lag=lag, size=size, zero=rat(zero), out=out2, near=near2,
                         err=err2),
                    dict(info, x=[str(v) for v in xf2][:40],
                         call="flt = amdf(%d, %d); flt(other) interleaved with flt(x)" % (lag, size),
                         err=err2, observed=[repr(g) for g in got2][:40]))
            else:
                err, got = observe(lambda: al.amdf(lag, size)(container(x, kind, al), zero=number(zero, nk)))
            out, near = snap_all(got)
            add(dict(base, lag=lag, size=size, zero=rat(zero), out=out, near=near, err=err),
                dict(info, call="amdf(%d, %d)(x, zero=%s)" % (lag, size, zero), err=err,
                     observed=[repr(g) for g in got][:40]))
        elif tool == "envelope":
            strat = rng.choice(["rms", "abs", "squared"])
            cutoff = rng.choice(CUTOFFS)
            g, R = lowpass_params(al, cutoff)
            label, f = rng.choice(aliases(al, "envelope", strat))
            err, got = observe(lambda: f(container(x, kind, al), cutoff))
            innov, ok, prev = [], all(is_scalar(v) for v in got), 0.0
            if ok:
                for v in got:
                    y = float(v) ** 2 if strat == "rms" else float(v)
                    innov.append((y - R * prev) / g)       # u[t] = (y[t] - R y[t-1]) / g
                    prev = y
            out, near = snap_all(innov)
            add(dict(base, strat=strat, out=out if ok else [], near=near and ok, err=err),
                dict(info, call="%s(x, %r)" % (label, cutoff), gain=g, pole=R, err=err,
                     observed=[repr(v) for v in got][:40]))
        elif tool == "clip":
            lo = rng.choice([None, q4(rng, -8, 4)])
            hi = rng.choice([None, q4(rng, -4, 8)])
            l, h = (None if lo is None else number(lo, nk)), (None if hi is None else number(hi, nk))
            err, got = observe(lambda: al.clip(container(x, kind, al), l, h))
            err2, got2 = observe(lambda: al.clip(al.clip(container(x, kind, al), l, h), l, h))
            out, near = snap_all(got)
            twice, near2 = snap_all(got2)
            add(dict(base, low=[] if lo is None else [rat(lo)], high=[] if hi is None else [rat(hi)], out=out,
                     twice=twice, near=near and near2, err=err if err != "none" else err2),
                dict(info, call="clip(x, %s, %s)" % (lo, hi), err=err, observed=[repr(g) for g in got][:40]))
        elif tool == "zcross":
            h = q4(rng, 0, 8)
            fs = rng.choice([Fraction(0), Fraction(1), Fraction(-1), q4(rng)])
            err, got = observe(lambda: al.zcross(container(x, kind, al), hysteresis=number(h, nk),
                                                 first_sign=number(fs, nk)))
            ok = all(isinstance(v, int) and not isinstance(v, bool) for v in got)
            add(dict(base, hyst=rat(h), fs=rat(fs), out=[int(v) for v in got] if ok else [], near=ok, err=err),
                dict(info, call="zcross(x, hysteresis=%s, first_sign=%s)" % (h, fs), err=err, observed=got[:60]))
        else:
            md, step = q4(rng, 0, 10), q4(rng, 1, 12)
            err, got = observe(lambda: al.unwrap(container(x, kind, al), max_delta=number(md, nk), step=number(step, nk)))
            out, near = snap_all(got)
            add(dict(base, md=rat(md), step=rat(step), out=out, near=near, err=err),
                dict(info, call="unwrap(x, max_delta=%s, step=%s)" % (md, step), err=err,
                     observed=[repr(g) for g in got][:40]))
    bad = tracecheck.run_records(ctx, "AnalysisTrace", TRACE_CONSTANTS, recs, what="C20 recorded tool runs",
                                 chunk=350)
    ctx.traces += len(recs) - len(bad)
    ctx.log("M3: %d recorded runs (length <= %d) judged by TLC, %d rejected" % (len(recs), maxlen, len(bad)))
    if meta:
        ctx.sample({"recorded": {k: v for k, v in meta[len(meta) // 2].items() if k != "observed"}})
    for i, verdict in sorted(bad.items()):
        rec, info = recs[i - 1], meta[i - 1]
        cls = verdict[0]
        if cls == "exception" and not rec["x"]:
            cls = "empty-input"
        elif cls in ("mean", "runsum", "meanabsdiff", "lowpass", "saturates", "crossing", "tolerance"):
            cls = "value"
        ctx.violation("C20:%s:%s" % (tool_name(rec), cls), dict(info, clause=verdict[0]))


def check(ctx):
    al = common.import_audiolazy()
    ctx.rule = ("M2: every state (tool case, input so far) of the TLC run replayed on the real tool through its "
                "strategy aliases, container kinds and number types; non-trivial = at least 2 input samples; "
                "M3: random inputs of rationals k/4 judged by TLC, non-trivial = at least 3 samples")
    ctx.assumptions = [
        "samples, limits, thresholds and zero values are exact rationals (dyadic in M2, k/4 in M3)",
        "window sizes and lags are integers >= 1 (x[n-lag] of the statement is a sample); hysteresis >= 0; "
        "max_delta >= 0 and step > 0",
        "the linear tools are run on linear-form samples: the result is taken to be the same function of its "
        "input for every number type (checked in M3 with Fractions and floats)",
        "maverage.*, amdf and envelope compute in floats: |code - exact| <= 1e-9 (1 + |exact|); exact results "
        "on the pools differ by > 1e-6",
        "envelope: gain and pole are read from the code's own lowpass(cutoff) (its design is property C13's "
        "subject) and must have the one-pole form g / (1 - R z^-1)",
        "clip with high < low: the call must refuse (raise); the class ValueError is a diagnostic only",
    ]
    if ctx.thorough:
        m2(ctx, al, "AnalysisC20_thorough.cfg", 10)
        m3(ctx, al, 2100, 300)
    else:
        m2(ctx, al, "AnalysisC20_quick.cfg", 6)
        m3(ctx, al, 490, 80)
    ctx.exhaustive = True
