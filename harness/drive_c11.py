"""C11 - PARCOR step-down inverts Levinson and decides stability correctly.

M1  TLC: spec/dsp/Lpc.tla on the LpcC11 grid.  Step-down machine (k = last coefficient,
    f <- (f - k rev f)/(1 - k^2), leading 1 forced, ParCorError iff k^2 = 1) inverts the step-up
    recursion; Levinson on r generated from reflection coefficients finds exactly those coefficients,
    error = r0 * prod(1 - k^2), and stepping its result down yields them last first; the stability
    machine (all |k| < 1 over the step-down of the denominator made monic) agrees with the pole
    locations of denominators built from their roots, for every gain (Schur-Cohn, checked not assumed).
M2  spec -> code: every state TLC reached is replayed: parcor on ZFilter(StepUp(ks)) (Fractions: exact
    equality of every yielded coefficient and of the exception; floats / scaled-denominator routes),
    parcor(levinson_durbin(r)) (floats: DESIGN 2.4 rule), parcor_stable(1/den) against the exported verdict.
M3  code -> spec: random higher-order coefficient vectors, root sets and gains; records judged by TLC
    (spec/trace/LpcTrace.tla) with the Lpc operators.
"""
import os
from fractions import Fraction

import common
import tlaval
import tlc
import tracecheck
import lpc_common as L


# ---- building the real filters ----------------------------------------------------------------------
def fir(al, coefs, route):
    """monic FIR filter with the given exact coefficients through a construction route"""
    if route == "frac":
        return al.ZFilter([Fraction(c) for c in coefs])
    if route == "float":
        return al.ZFilter([float(c) for c in coefs])
    if route == "int":           # integer coefficients: the library's true division leaves exact arithmetic
        return al.ZFilter([int(c) for c in coefs])
    if route == "zexpr":
        f = sum(Fraction(c) * al.z ** -k for k, c in enumerate(coefs))
        return f if isinstance(f, al.ZFilter) else al.ZFilter([f])
    if route == "scaled":        # constant denominator g: parcor divides by it first
        g = Fraction(-3, 2)
        return al.ZFilter([Fraction(c) * g for c in coefs], [g])
    raise ValueError(route)


def iir(al, den, route):
    """a filter whose denominator polynomial has exactly the given coefficients"""
    d = [Fraction(c) for c in den]
    if route == "mixed":         # ints where integral: the library's true division may leave exact arithmetic
        return al.ZFilter([1], [int(c) if c.denominator == 1 else Fraction(c) for c in den])
    if route == "list":
        return al.ZFilter([1], d)
    if route == "rewritten":
        # a filter object that has been judged before with other coefficients and whose denominator polynomial was
        # then rewritten in place, coefficient by coefficient: the filter of its CURRENT coefficients
        f = al.ZFilter([1], [Fraction(1)] + [Fraction(1, 4)] * (len(d) - 1))
        try:
            al.parcor_stable(f)
        except Exception:                        # noqa: the judged call is what counts
            pass
        for k, c in enumerate(d):
            f.denpoly[k] = c
        # (only when the object really exposes its live denominator: C11 does not promise that it does)
        if [f.denpoly[k] for k in range(len(d))] != d or len(list(f.denpoly.terms())) != sum(1 for c in d if c != 0):
            return al.ZFilter([1], d)
        return f
    if route == "inverse":
        return 1 / al.ZFilter(d)
    if route == "delayed-num":
        return al.ZFilter([0, 2], d)
    if route == "float":
        return al.ZFilter([1.0], [float(c) for c in den])
    raise ValueError(route)


def float_safe_fir(coefs, spec_ks, spec_err):
    """floats may replace Fractions only where float step-down cannot flip anything: dyadic coefficients and
    no |k| = 1 other than the very first coefficient read (which is then read exactly)"""
    if not all(L.is_dyadic(c) for c in coefs):
        return False
    units = [i for i, k in enumerate(spec_ks) if abs(k) == 1]
    return units in ([], [0])


def m2(ctx, al, cfg):
    d = tlc.scratch_dir("c11")
    dump = os.path.join(d, "states")
    r = tlc.require_ok(tlc.run(cfg[:-4], cfg, dump=dump), cfg[:-4],
                       need_actions=("LdStep", "LdFinish", "PcStep", "PcFinish", "StStep", "StFinish"))
    ctx.add_tlc(r, "Lpc (C11 grid): step-down inverts step-up / Levinson, error product, Schur-Cohn == pole locations")
    nstates = 0
    diag = {"spec-ParCorError-code-silent": 0, "float-route": 0, "st-float-route": 0, "unit-k-in-float-arithmetic": 0}
    seen_st = {"stable": 0, "unstable": 0, "nonmonic": 0}
    for st in tlaval.read_dump(dump + ".dump"):
        nstates += 1
        c = st["case"]
        kind = c["kind"]
        ck = L.case_key(c)
        if kind == "ks":
            coefs = L.frs(st["A"])
            kd = L.frs(st["kd"])
            final = st["pc"] == "done" or st["err"] != "none"
            routes = ["frac"]
            if final:
                routes += ["zexpr", "scaled"]
                if float_safe_fir(coefs, kd, st["err"]):
                    routes.append("float")
                    if all(x.denominator == 1 for x in coefs):
                        routes.append("int")
            for route in routes:
                f = fir(al, coefs, route)
                out, e = L.parcor_observe(al, f, None if final else len(kd))
                ctx.count(1, nontrivial_key=(ck, len(kd)) if len(coefs) >= 3 else None)
                info = {"case": ck, "filter": L.show(coefs), "route": route, "yields_expected": L.show(kd),
                        "err_expected": st["err"], "yields": L.show(out), "err": e}
                exact = route not in ("float", "int")
                if not exact:
                    diag["float-route"] += 1
                n = min(len(out), len(kd))
                # exact equality unless the library itself left exact arithmetic: int coefficients (true division)
                # or a zero coefficient read back as the float 0.0 (Poly's absent power), after which values are floats
                same = all((L.exactly(o) == k) if (exact and not isinstance(o, float)) else L.near(o, k)
                           for o, k in zip(out[:n], kd[:n]))
                # |k| = 1 exactly is decidable only while the library computes exactly (no float among the yields)
                exact_run = exact and not any(isinstance(o, float) for o in out)
                if not exact_run and st["err"] == "ParCorError":
                    if not same or len(out) < len(kd):
                        ctx.violation("C11:parcor-coefficients", info)
                    else:
                        diag["unit-k-in-float-arithmetic"] += 1
                elif e == "ParCorError" and (st["err"] != "ParCorError" or len(out) != len(kd)):
                    ctx.violation("C11:parcor-ParCorError", info)
                elif e not in ("none", "ParCorError") and not (st["err"] == "ParCorError" and len(out) == len(kd)):
                    ctx.violation("C11:parcor-coefficients", info)     # an exception cut the coefficients short
                elif not same:
                    ctx.violation("C11:parcor-coefficients", info)
                elif st["err"] == "none" and (len(out) != len(kd)):
                    ctx.violation("C11:parcor-coefficients", info)
                elif st["err"] == "ParCorError" and e != "ParCorError":
                    diag["spec-ParCorError-code-silent"] += 1     # "only when": the converse is not demanded
                if nstates % 1499 == 0 and route == "frac":
                    ctx.sample({"case": ck, "parcor": L.show(out), "err": e})
        elif kind in ("kl", "ld", "ka"):
            if st["pc"] == "ld":
                continue                                   # the Levinson part is C10's
            rr = L.frs(st["r"])
            a_exact = L.frs(st["A"])
            err_exact = L.fr(st["errv"])
            kref = L.frs(st["ks"])                          # k_1 .. k_p found by the recursion
            kd = L.frs(st["kd"])
            final = st["pc"] == "done" or st["err"] != "none"
            for route in (("frac", "int", "float") if final else ("frac",)):
                vs = L.route_values(rr, route)
                if vs is None:
                    continue
                e, f = L.call(al.levinson_durbin, vs)
                info = {"case": ck, "r": L.show(rr), "route": route}
                ctx.count(1, nontrivial_key=(ck, len(kd)) if len(kref) >= 2 else None)
                if e != "none":
                    ctx.violation("C11:parcor-levinson", dict(info, raised=e))
                    continue
                out, e2 = L.parcor_observe(al, f, None if final else len(kd))
                info.update(numerator=L.show(f.numerator), error=repr(getattr(f, "error", None)),
                            parcor=L.show(out), parcor_err=e2, expected_ks_first_first=L.show(kref),
                            expected_error=str(err_exact))
                if st["err"] == "ParCorError":
                    # |k| = 1 exactly inside a float computation: not decidable in floats, diagnostics only
                    continue
                if e2 == "ParCorError":
                    ctx.violation("C11:parcor-ParCorError", info)
                    continue
                if e2 != "none":
                    ctx.violation("C11:parcor-levinson", info)
                    continue
                if final:
                    # last first, the order being the highest non-zero coefficient: compare k_1..k_p padded
                    got = list(reversed(out))
                    if not (len(got) <= len(kref) and L.near_seq(got, kref)):
                        ctx.violation("C11:parcor-levinson", info)
                    elif not L.near(getattr(f, "error", None), err_exact):
                        ctx.violation("C11:error-product", info)
                    elif not L.near_seq(list(f.numerator), a_exact):
                        ctx.violation("C11:step-up-rebuild", info)
                else:
                    if not all(L.near(o, k) for o, k in zip(out, kd)) or len(out) != len(kd):
                        # a float zero that is not exactly zero lengthens the numerator: compare from the end
                        got = list(reversed(L.parcor_observe(al, f)[0]))
                        if not (len(got) <= len(kref) and L.near_seq(got, kref)):
                            ctx.violation("C11:parcor-levinson", info)
        elif kind == "st":
            if st["pc"] != "done":
                continue
            den = L.frs(st["A"])
            want = st["flag"] == "stable"
            gain = L.fr(c["gain"])
            kd = L.frs(st["kd"])
            seen_st["stable" if want else "unstable"] += 1
            seen_st["nonmonic"] += gain != 1
            routes = ["list", "inverse", "delayed-num", "rewritten"]
            # inexact arithmetic only where no |k| of the exact step-down is within 1/16 of 1
            if all(abs(abs(k) - 1) >= Fraction(1, 16) for k in kd):
                routes.append("mixed")
                if all(L.is_dyadic(x) for x in den):
                    routes.append("float")
                diag["st-float-route"] += 1
            for route in routes:
                f = iir(al, den, route)
                e, got = L.call(al.parcor_stable, f)
                ctx.count(1, nontrivial_key=(ck, route) if len(den) >= 3 else None)
                if e != "none" or got is not want:
                    key = "C11:parcor_stable-nonmonic" if gain != 1 else "C11:parcor_stable"
                    ctx.violation(key, {"case": ck, "denominator": L.show(den), "route": route,
                                        "poles_all_inside": want, "parcor_stable": got, "raised": e})
                elif nstates % 499 == 0 and route == "list":
                    ctx.sample({"case": ck, "denominator": L.show(den), "parcor_stable": got})
    if nstates != r.distinct:
        raise tlc.MachineryError("dump has %d states, TLC reported %d" % (nstates, r.distinct))
    for k, v in seen_st.items():
        L.require_some(v, "parcor_stable cases with verdict/gain class %s" % k)
    ctx.traces += nstates
    ctx.log("M2: %d spec states replayed; parcor_stable classes %s; diagnostics (not verdicts): %s"
            % (nstates, seen_st, diag))


# ---- M3 ----------------------------------------------------------------------------------------------
K_IN = [Fraction(n, d) for d in (2, 3, 4) for n in range(-d + 1, d) if n] + [Fraction(0)] * 2
K_OUT = [Fraction(2), Fraction(-3, 2), Fraction(5, 4), Fraction(-3), Fraction(1), Fraction(-1)]
ROOTS = [Fraction(n, d) for d in (1, 2, 3, 4) for n in range(-2 * d, 2 * d + 1)]
CPAIRS = [(Fraction(a, d), Fraction(b, d)) for d in (2, 3, 5) for a in range(-d - 1, d + 2) for b in range(1, d + 2)]
GAINS = [Fraction(n, d) for d in (1, 2, 3) for n in (-5, -3, -2, -1, 1, 2, 3, 4, 7)]


# every rational TLC meets while judging a record must have numerator and denominator below 2^NB: a sum of a
# value and a product of two values then stays below 2^(3*NB) = 2^30 before normalisation (32-bit integers)
NB = 10


def partial_products_small(roots, cps, nb):
    return all(small(L.den_from_roots(roots[:i], [], Fraction(1)), nb) for i in range(len(roots) + 1)) and \
        all(small(L.den_from_roots([], cps[:i], Fraction(1)), nb) for i in range(len(cps) + 1))


def small(vals, nb):
    return all(L.bits(v) <= nb for v in vals)


def exact_step_down_small(a, nb):
    """screen: every intermediate of the exact step-down of the monic a stays small (or it stops at |k| = 1)"""
    f = list(a)
    while len(f) > 1 and f[-1] == 0:
        f.pop()
    while len(f) > 1:
        k = f[-1]
        if not small(f, nb):
            return False
        if abs(k) == 1:
            return True
        m = len(f) - 1
        f = [(f[i] - k * f[m - i]) / (1 - k * k) for i in range(m)]
        f[0] = Fraction(1)
    return True


def m3(ctx, al, count):
    rng = ctx.rng
    recs, meta = [], []
    made = {"ks": 0, "kl": 0, "st": 0}
    tries = 0
    while min(made.values()) < count and tries < count * 300:
        tries += 1
        kind = rng.choice(["ks", "kl", "st"])
        if made[kind] >= count:
            continue
        if kind == "ks":
            n = rng.randint(2, 7)
            ks = [rng.choice(K_IN) if rng.random() < 0.85 else rng.choice(K_OUT) for _ in range(n)]
            if ks[-1] == 0:
                continue
            a = L.step_up(ks)
            if not small(a, NB) or not exact_step_down_small(a, NB):
                continue
            route = rng.choice(["frac", "frac", "zexpr", "scaled"])
            out, e = L.parcor_observe(al, fir(al, a, route))
            ex = [L.exactly(o) for o in out]
            info = {"kind": "ks", "filter": L.show(a), "built_from_ks": L.show(ks), "route": route,
                    "yields": L.show(out), "err": e}
            made[kind] += 1
            if any(x is None for x in ex):
                ctx.violation("C11:parcor-coefficients", info)
                continue
            e = e if e in ("none", "ParCorError") else "other"
            if any(isinstance(o, float) for o in out):
                # a zero reflection coefficient was read back as the float 0.0: the rest is float arithmetic
                fk = L.fixed_list(out)
                recs.append({"kind": "ksf", "A": L.rats(a), "kout": fk[1], "sk": fk[0], "err": e})
            else:
                recs.append({"kind": "ks", "A": L.rats(a), "err": e,
                             "kout": [L.rat(x) if L.bits(x) <= 20 else [0, 0] for x in ex]})   # [0, 0] equals no rational
            meta.append(info)
            ctx.count(1, nontrivial_key=("m3ks", made[kind]) if n >= 3 else None)
        elif kind == "kl":
            n = rng.randint(2, 4)
            ks = [rng.choice(K_IN) for _ in range(n)]
            if ks[-1] == 0 and rng.random() < 0.7:
                continue
            rr = L.r_from_ks(ks)
            a = L.step_up(ks)
            if not small(rr, NB) or not small(a, NB) or not all(small(L.r_from_ks(ks[:j]), NB) for j in range(n)):
                continue
            e, f = L.call(al.levinson_durbin, list(rr) if rng.random() < 0.7 else [float(v) for v in rr])
            info = {"kind": "kl", "ks": L.show(ks), "r": L.show(rr), "raised": e}
            made[kind] += 1
            if e != "none":
                ctx.violation("C11:parcor-levinson", info)
                continue
            out, e2 = L.parcor_observe(al, f)
            num = list(f.numerator) + [0] * (n + 1 - len(f.numerator))
            info.update(numerator=L.show(f.numerator), error=repr(getattr(f, "error", None)), parcor=L.show(out),
                        parcor_err=e2)
            nz = max([i + 1 for i, k in enumerate(ks) if k != 0] + [0])
            # float zeros that are not exactly zero lengthen what parcor yields: trailing k's are then compared as 0
            outp = [0] * max(0, nz - len(out)) + list(out)
            extra, outp = outp[:len(outp) - nz], outp[len(outp) - nz:]
            fa, fe, fk, fx = L.fixed_list(num), L.fixed_list([getattr(f, "error", None)]), L.fixed_list(outp), \
                L.fixed_list(extra)
            if e2 != "none" or fa is None or fe is None or fk is None or fx is None or len(num) != n + 1 \
                    or any(abs(L.exactly(v)) > Fraction(1, 10 ** 9) for v in extra):
                ctx.violation("C11:parcor-levinson", info)
                continue
            recs.append({"kind": "kl", "ks": L.rats(ks), "r": L.rats(rr), "a": fa[1], "sa": fa[0],
                         "e": fe[1][0], "se": fe[0], "kout": fk[1], "sk": fk[0]})
            meta.append(info)
            ctx.count(1, nontrivial_key=("m3kl", made[kind]) if n >= 3 else None)
        else:
            nr = rng.randint(0, 4)
            nc = rng.randint(0, 2)
            if nr + 2 * nc == 0:
                continue
            roots = sorted(rng.choice(ROOTS) for _ in range(nr))
            cps = [rng.choice(CPAIRS) for _ in range(nc)]
            gain = rng.choice(GAINS) if rng.random() < 0.8 else Fraction(1)
            den = L.den_from_roots(roots, cps, gain)
            mon = [x / den[0] for x in den]
            if not small(den, NB) or not small(mon, NB) or not exact_step_down_small(mon, NB) or not partial_products_small(roots, cps, NB):
                continue
            route = rng.choice(["list", "inverse", "delayed-num"])
            e, got = L.call(al.parcor_stable, iir(al, den, route))
            info = {"kind": "st", "roots": L.show(roots), "cpairs": [L.show(p) for p in cps], "gain": str(gain),
                    "denominator": L.show(den), "route": route, "parcor_stable": got, "raised": e}
            made[kind] += 1
            if e != "none" or not isinstance(got, bool):
                ctx.violation("C11:parcor_stable-nonmonic" if gain != 1 else "C11:parcor_stable", info)
                continue
            recs.append({"kind": "st", "roots": L.rats(roots), "cpairs": [L.rats(p) for p in cps],
                         "gain": L.rat(gain), "den": L.rats(den), "verdict": got})
            meta.append(info)
            ctx.count(1, nontrivial_key=("m3st", made[kind]) if len(den) >= 4 else None)
    for k in made:
        L.require_some(made[k], "M3 %s records" % k)
    bad = tracecheck.run_records(ctx, "LpcTrace", {"Cases": "{}", "ThenStepDown": "TRUE"}, recs,
                                 what="C11 recorded runs", chunk=500)
    ctx.traces += len(recs) - len(bad)
    ctx.log("M3: recorded %s; %d records judged by TLC, %d rejected" % (made, len(recs), len(bad)))
    if meta:
        ctx.sample({"recorded": meta[0]})
    for i, info in sorted(bad.items()):
        rec, clause = recs[i - 1], info[0]
        if rec["kind"] == "st":
            key = "C11:parcor_stable-nonmonic" if rec["gain"] != [1, 1] else "C11:parcor_stable"
        elif rec["kind"] in ("ks", "ksf"):
            key = {"parcorerror-without-unit-k": "C11:parcor-ParCorError",
                   "step-up-rebuild": "C11:step-up-rebuild"}.get(clause, "C11:parcor-coefficients")
        else:
            key = {"error-product": "C11:error-product", "numerator": "C11:step-up-rebuild"}.get(
                clause, "C11:parcor-levinson")
        if clause == "input":
            raise tlc.MachineryError("driver-built input disagrees with the specification's construction: %r"
                                     % (meta[i - 1],))
        ctx.violation(key, dict(meta[i - 1], clause=clause))


def check(ctx):
    al = common.import_audiolazy()
    ctx.rule = ("M2: every TLC state replayed: parcor on ZFilter(StepUp(ks)) exactly (Fractions; prefix of the yields "
                "at every step, exception at the end), parcor(levinson_durbin(RFromKs(ks))) within 1e-9*(1+|exact|), "
                "parcor_stable on every root set x gain through 3-4 construction routes; non-trivial = order >= 2.  "
                "M3: random ks (order <= 7), Levinson round trips (order <= 4), root sets (order <= 8) x gains judged "
                "by TLC; non-trivial = order >= 3")
    ctx.assumptions = [
        "parcor is observed on monic FIR filters (step-up outputs, Levinson outputs), parcor_stable on "
        "denominators with a non-zero leading coefficient: the statement's quantifier",
        "'ParCorError only when some |k_m| = 1' is one direction: a missing ParCorError at |k| = 1 is diagnostics",
        "exact verdicts use Fraction coefficients; float coefficients only where they are dyadic and every |k| "
        "of the spec's step-down is >= 1/16 away from 1 (or is the first coefficient read), so rounding cannot flip anything",
        "parcor(levinson_durbin(r)) is float arithmetic: compared by |code-exact| <= 1e-9*(1+|exact|) on pools where "
        "distinct k differ by >= 1/12; a k that is exactly 0 may come out as ~1e-17 and lengthen the yielded list, "
        "so lists are compared as k_1..k_p padded with zeros",
        "poles are known by construction (denominator = gain * product of root factors; RootsAreRoots checks it in TLC)",
    ]
    if ctx.thorough:
        m2(ctx, al, "LpcC11T.cfg")
        m3(ctx, al, 1500)
    else:
        m2(ctx, al, "LpcC11Q.cfg")
        m3(ctx, al, 150)
    ctx.exhaustive = True
