#!/bin/sh
# flakiness / false-alarm hunt: every check under several VERIF_SEED values (nothing is written to evidence/)
#   harness/seedloop.sh <tier> <out.log> <seed> [<seed> ...]
cd "$(dirname "$0")/.."
tier=$1; out=$2; shift 2
for seed in "$@"; do
  for id in C01 C02 C03 C04 C05 C06 C07 C08 C09 C10 C11 C12 C14 C15 C16 C17 C18 C19 C20 X01 X02 X03 X04 X05 X06; do
    log=$(mktemp)
    VERIF_SEED=$seed VERIF_NO_EVIDENCE=1 timeout 3000 ./vf check $id --tier $tier > $log 2>&1
    rc=$?
    echo "seed=$seed $id rc=$rc $(tail -1 $log | cut -c1-120)" >> $out
    if [ $rc -ne 0 ]; then cp $log $out.$id.$seed.fail; fi
    rm -f $log
  done
done
