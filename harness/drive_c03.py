"""C03 - a Stream behaves as a lazy sequence under any history of its methods.

M1  TLC: spec/stream/StreamHist.tla - the pull machine (tee groups with shared buffers, lazy skipper /
    limit / map / filter / chain nodes, in-place `_data` replacement, StreamTeeHub) against the immutable
    list model, for every history up to the bound (history-as-state): RetAgree, Independent, PeekPure.
M2  spec -> code: every history TLC enumerated is replayed on real Stream objects; the return value /
    exception of its last call is compared with the value TLC exported (prefixes are histories of their own).
M3  code -> spec: long random histories over longer sequences and more handles are recorded and validated
    by TLC (spec/trace/StreamHistTrace.tla).
"""
import os
import warnings

import common
import tlaval
import tlc
import tracecheck

INF = float("inf")


class Hang(Exception):
    """A call that did not return within the watchdog time (e.g. scanning an endless stream)."""


def _alarm(signum, frame):
    raise Hang()


def watchdog(seconds):
    import signal
    signal.signal(signal.SIGALRM, _alarm)
    signal.setitimer(signal.ITIMER_REAL, seconds)


def watchdog_off():
    import signal
    signal.setitimer(signal.ITIMER_REAL, 0)


def parse_tok(tok):
    if tok == "None":
        return None
    if tok in ("inf", "-inf", "nan"):
        return float(tok)
    if "." in tok:
        return float(tok)
    return int(tok)


def f_map(x):
    return x + 10


PRED = {"odd": lambda x: x % 2 == 1, "small": lambda x: x % 10 <= 1}
APPEND = {"list": ([7, 8],), "empty": ([],), "scalar": (9,), "cycle": (5, 6)}


class World(object):
    """The real objects of one history."""

    def __init__(self, al, pre, per, route=0):
        """The same abstract base sequence can be built from many real iterables: `route` picks one."""
        import itertools as it
        self.al = al
        pre, per = list(pre), list(per)
        if per:
            opts = [lambda: al.Stream(*per) if len(per) > 1 else al.Stream(per[0]),
                    lambda: al.Stream(it.cycle(per)),
                    lambda: al.Stream(x for x in it.cycle(per))]
            if len(per) == 1:
                opts += [lambda: al.Stream(it.repeat(per[0])), lambda: al.lazy_itertools.repeat(per[0])]
        else:
            opts = [lambda: al.Stream(list(pre)), lambda: al.Stream(tuple(pre)), lambda: al.Stream(x for x in pre),
                    lambda: al.Stream(iter(pre)), lambda: al.Stream(al.Stream(pre)),
                    lambda: al.Stream(pre[:1], pre[1:])]
            if pre and all(x == pre[0] for x in pre):
                opts += [lambda: al.Stream(it.repeat(pre[0], len(pre))),
                         lambda: al.lazy_itertools.repeat(pre[0], len(pre))] * 2
            if pre and pre == list(range(pre[0], pre[0] + len(pre))):
                opts += [lambda: al.Stream(range(pre[0], pre[0] + len(pre)))]
        self.handles = [opts[route % len(opts)]()]
        self.hub = None

    def call(self, e):
        """Perform one call; returns (rt, rv) in the spec's return encoding."""
        al = self.al
        op = e["op"]
        H = self.handles
        try:
            if op in ("take", "peek"):
                s = H[e["h"] - 1]
                n = parse_tok(e["n"])
                self.ncalls = getattr(self, "ncalls", 0) + 1
                if n is not None and self.ncalls % 3 == 0:
                    # the `constructor` argument only shapes what is RETURNED (here: reversed, so that anything put
                    # back into the stream by mistake is out of order); the list model is about the stream
                    r = getattr(s, op)(n, constructor=lambda items: list(items)[::-1])
                    return ("list", list(r)[::-1])
                r = getattr(s, op)(n) if n is not None else getattr(s, op)()
                return ("item", r) if n is None else ("list", list(r))
            if op == "next":
                return ("item", next(iter(H[e["h"] - 1])))
            if op == "copy":
                H.append(H[e["h"] - 1].copy())
                return ("new", len(H))
            if op in ("skip", "limit"):
                s = H[e["h"] - 1]
                r = getattr(s, op)(parse_tok(e["n"]))
                return ("none", 0) if r is s else ("bad-return", 0)
            if op == "append":
                s = H[e["h"] - 1]
                r = s.append(*APPEND[e["arg"]])
                return ("none", 0) if r is s else ("bad-return", 0)
            if op == "appendh":
                s = H[e["h"] - 1]
                r = s.append(H[e["g"] - 1])
                H[e["g"] - 1] = None
                return ("none", 0) if r is s else ("bad-return", 0)
            if op == "map":
                s = H[e["h"] - 1]
                r = s.map(f_map)
                return ("none", 0) if r is s else ("bad-return", 0)
            if op == "filter":
                s = H[e["h"] - 1]
                r = s.filter(PRED[e["p"]])
                return ("none", 0) if r is s else ("bad-return", 0)
            if op == "tee":
                s = H[e["h"] - 1]
                new = al.lazy_itertools.tee(s, e["n"])
                H[e["h"] - 1] = None
                first = len(H) + 1
                if len(new) != e["n"] or not all(isinstance(x, al.Stream) for x in new):
                    return ("bad-return", 0)
                H.extend(new)
                return ("new", first)
            if op == "thub":
                self.hub = al.thub(H[e["h"] - 1], e["n"])
                H[e["h"] - 1] = None
                return ("none", 0)
            if op == "use":
                w = e["w"]
                if w == "use":
                    s = al.Stream(self.hub)
                elif w == "limit2":
                    s = self.hub.limit(2)
                elif w == "skip1":
                    s = self.hub.skip(1)
                elif w == "filterodd":
                    s = self.hub.filter(PRED["odd"])
                elif w == "append78":
                    s = self.hub.append([7, 8])
                else:
                    s = self.hub.map(f_map)
                H.append(s)
                return ("new", len(H))
            if op == "hpeek":
                n = parse_tok(e["n"])
                r = self.hub.peek(n) if n is not None else self.hub.peek()
                return ("item", r) if n is None else ("list", list(r))
            if op == "hcopy":
                s = self.hub.copy()
                if s is None:
                    return ("bad-return", 0)
                H.append(s)
                return ("new", len(H))
            if op == "htake":
                self.hub.take(1)
                return ("bad-return", 0)
            raise tlc.MachineryError("unknown op %s" % op)
        except (StopIteration, IndexError, AttributeError, RuntimeError, TypeError, ValueError, OverflowError,
                NotImplementedError, Hang) as ex:
            if op == "htake" and not isinstance(ex, Hang):
                return ("exc", "Refused")           # C03 does not say how a hub refuses take()
            # the classes the statement names include their subclasses
            for cls in (StopIteration, IndexError):
                if isinstance(ex, cls):
                    return ("exc", cls.__name__)
            return ("exc", type(ex).__name__)


def spec_ret(ret):
    v = ret["v"]
    if ret["t"] == "list":
        return ("list", list(v))
    return (ret["t"], v)


def hist_key(h):
    return tuple(tuple(sorted((k, (tuple(v) if isinstance(v, tuple) else v)) for k, v in e.items())) for e in h)


def finding_key(e, want, got):
    """Class of failure: which method, and what kind of disagreement."""
    if got[0] == "exc" and want[0] != "exc":
        return "C03:%s:raises-%s" % (e["op"], got[1])
    if want[0] == "exc" and got[0] != "exc":
        return "C03:%s:missing-%s" % (e["op"], want[1])
    return "C03:%s:wrong-%s" % (e["op"], got[0])


def m2(ctx, al, cfg, what, need=None):
    d = tlc.scratch_dir("c03")
    dump = os.path.join(d, "st")
    r = tlc.require_ok(tlc.run("StreamHistC03", cfg, dump=dump, timeout=3000), "StreamHist " + cfg)
    ctx.add_tlc(r, "StreamHist %s (%s): all histories, machine == list model" % (cfg, what))
    ops_seen = {}
    n = 0
    nbad = 0
    for st in tlaval.read_dump(dump + ".dump"):
        n += 1
        hist = st["hist"]
        if len(hist) < 2:
            continue
        for e in hist[1:]:
            ops_seen[e["op"]] = ops_seen.get(e["op"], 0) + 1
        w = World(al, hist[0]["pre"], hist[0]["per"], route=n)
        got = None
        watchdog(5.0)
        try:
            for e in hist[1:]:
                got = w.call(e)
                if got == ("exc", "Hang"):
                    break
        finally:
            watchdog_off()
        want = spec_ret(st["ret"])
        ctx.count(1, nontrivial_key=n if len(hist) >= 3 else None)
        if n % 9973 == 0:
            ctx.sample({"history": [dict(e) for e in hist], "return": want})
        if got != want:
            nbad += 1
            ctx.violation(finding_key(hist[-1], want, got),
                          {"history": [dict(e) for e in hist], "expected": want, "observed": got})
    if n != r.distinct:
        raise tlc.MachineryError("dump has %d states, TLC reported %d" % (n, r.distinct))
    need = need or {"take", "next", "copy", "peek", "skip", "limit", "append", "appendh", "map", "filter", "tee",
                    "thub", "use", "hpeek", "hcopy", "htake"}
    missing = need - set(ops_seen)
    if missing:
        raise tlc.MachineryError("operations never exercised by the model: %s" % sorted(missing))
    ctx.traces += n
    ctx.log("M2 %s: %d histories replayed, %d disagree" % (cfg, n, nbad))


# --------------------------------------------------------------------------------------------------
FLOAT_TOKS = ["0.6", "1.4", "1.6", "3.7", "2.7", "0.4", "6.2", "9.8", "-2.5", "-0.3", "-inf", "nan"]


def record_history(ctx, al, length):
    """One random history on real objects, with driver-side tracking only of what the guards need."""
    rng = ctx.rng
    c = rng.random()
    if c < 0.3:
        pre, per = [], [rng.randint(1, 9) for _ in range(rng.randint(1, 3))]
    elif c < 0.45:
        pre, per = [rng.randint(1, 9)] * rng.randint(1, 12), []          # constant finite stream (repeat(v, k))
    else:
        pre, per = [rng.randint(1, 9) for _ in range(rng.randint(0, 20))], []
    w = World(al, pre, per, route=rng.randrange(1000))
    endless = [bool(per)]
    live = [True]
    hub_endless = False
    events = []
    maxh = 7

    def tok(maxint=25):
        c = rng.random()
        if c < 0.65:
            return str(rng.randint(-2, maxint))
        if c < 0.9:
            return rng.choice(FLOAT_TOKS)
        return "None"
    for _ in range(length):
        lh = [i + 1 for i, x in enumerate(live) if x]
        choices = []
        if lh:
            choices += ["take"] * 4 + ["peek"] * 3 + ["next", "skip", "skip", "limit", "limit", "append", "map",
                                                      "filter"]
            if len(live) < maxh:
                choices += ["copy"] * 3
            if len(live) + 2 <= maxh:
                choices += ["tee"]
            if len(lh) >= 2:
                choices += ["appendh"]
            if w.hub is None:
                choices += ["thub"]
        if w.hub is not None:
            choices += ["hpeek", "hcopy", "htake", "use", "use"]
        if not choices:
            break
        op = rng.choice(choices)
        e = {"op": op}
        if op in ("take", "peek"):
            h = rng.choice(lh)
            n = tok()
            if rng.random() < 0.1 and not endless[h - 1]:
                n = "inf"
            e.update(h=h, n=n)
        elif op in ("next", "copy", "map"):
            e.update(h=rng.choice(lh))
        elif op in ("skip", "limit"):
            n = tok(12)
            while n in ("None", "-inf", "nan"):
                n = tok(12)
            h = rng.choice(lh)
            e.update(h=h, n=n)
            if op == "limit":
                endless[h - 1] = False
        elif op == "append":
            h = rng.choice(lh)
            arg = rng.choice(sorted(APPEND))
            e.update(h=h, arg=arg)
            if arg in ("scalar", "cycle"):
                endless[h - 1] = True
        elif op == "appendh":
            h, g = rng.sample(lh, 2)
            e.update(h=h, g=g)
            endless[h - 1] = endless[h - 1] or endless[g - 1]
            live[g - 1] = False
        elif op == "filter":
            h = rng.choice(lh)
            if endless[h - 1]:
                continue          # a filter on an endless stream may never pass: outside the property
            e.update(h=h, p=rng.choice(["odd", "small"]))
        elif op == "tee":
            h = rng.choice(lh)
            e.update(h=h, n=2)
            live[h - 1] = False
            live += [True, True]
            endless += [endless[h - 1]] * 2
        elif op == "thub":
            h = rng.choice(lh)
            e.update(h=h, n=rng.randint(1, 3))
            live[h - 1] = False
            hub_endless = endless[h - 1]
        elif op == "use":
            if len(live) >= maxh:
                continue
            w_ = rng.choice(["use", "limit2", "skip1", "map", "append78"] + ([] if hub_endless else ["filterodd"]))
            e.update(w=w_)
        elif op == "hpeek":
            n = tok()
            e.update(n=n)
        elif op == "hcopy":
            if len(live) >= maxh:
                continue
        watchdog(5.0)
        try:
            rt, rv = w.call(e)
        finally:
            watchdog_off()
        if op == "copy" and rt == "new":
            live.append(True)
            endless.append(endless[e["h"] - 1])
        if op in ("use", "hcopy") and rt == "new":
            live.append(True)
            endless.append(hub_endless and e.get("w") != "limit2")
        e["rt"], e["rv"] = rt, rv
        events.append(e)
    return {"base": {"pre": pre, "per": per}, "events": events}


def m3(ctx, al, count, length):
    traces = [record_history(ctx, al, length) for _ in range(count)]
    consts = {"MaxOps": 100000, "MaxH": 9, "Bases": "{}", "TakeToks": "<- AllToks", "PeekToks": "<- AllToks",
              "SkipToks": "<- AllToks", "LimitToks": "<- AllToks", "Menu": "<- AllMenu", "UnfoldLen": 12}
    acc, rej = tracecheck.run_traces(ctx, "StreamHistTrace", consts, traces,
                                     invariants=("Accepted", "RetAgree", "Independent"),
                                     what="C03 recorded histories", timeout=3000)
    ctx.traces += len(acc)
    ctx.count(sum(len(t["events"]) for t in traces))
    ctx.nontrivial_count += len(acc)
    ctx.sample({"recorded_history": traces[0]["events"][:8], "base": traces[0]["base"]})
    ctx.log("M3: %d recorded histories of up to %d calls: %d accepted, %d rejected" %
            (len(traces), length, len(acc), len(rej)))
    for tid, info in sorted(rej.items()):
        tr = traces[tid - 1]
        l = info[0]
        e = tr["events"][l - 1] if 0 < l <= len(tr["events"]) else {"op": "?"}
        key = "C03:%s:%s" % (e["op"], ("raises-" + str(e.get("rv"))) if e.get("rt") == "exc" else info[1])
        ctx.violation(key, {"base": tr["base"], "rejected_at": l, "clause": info[1],
                            "events_up_to_rejection": tr["events"][max(0, l - 6):l]})


def misc(ctx, al):
    """thub / tee of a non-iterable is that object (stateless clause)."""
    for obj in (3, 2.5, None):
        ctx.count(1)
        if al.thub(obj, 2) is not obj:
            ctx.violation("C03:thub-noniterable", {"object": repr(obj)})
        t = al.lazy_itertools.tee(obj, 3)
        if not (isinstance(t, tuple) and len(t) == 3 and all(x is obj for x in t)):
            ctx.violation("C03:tee-noniterable", {"object": repr(obj)})


def hub_of_hub(ctx, al):
    """A thub whose data is another thub: a hub handing out exactly n uses (each the whole sequence), then IndexError;
    whatever uses the inner hub still has are whole sequences too."""
    seq = [5, -2, 0, 7, 7, 1]
    for k in (1, 2, 3):
        for n in (1, 2, 3):
            ctx.count(1)
            info = {"inner_uses": k, "outer_uses": n}
            try:
                inner = al.thub(al.Stream(list(seq)), k)
                outer = al.thub(inner, n)
                got = []
                for _ in range(n):
                    got.append(list(al.Stream(outer)))
                extra = None
                try:
                    al.Stream(outer)
                    extra = "a use beyond n was handed out"
                except IndexError:
                    pass
                left = 0
                for _ in range(k + 2):
                    try:
                        got_inner = list(al.Stream(inner))
                        left += 1
                        if got_inner != seq:
                            extra = "inner use yields %r" % (got_inner,)
                    except IndexError:
                        break
            except Exception as ex:                     # noqa: the statement promises values
                ctx.violation("C03:hub-of-hub:raises", dict(info, error="%s: %s" % (type(ex).__name__, str(ex)[:100])))
                continue
            # (how many uses the INNER hub has left afterwards is not fixed by C03 - spending one of them on the
            # outer hub is what the code does, taking a copy would be as good: logged, not demanded)
            if any(g != seq for g in got) or extra:
                ctx.violation("C03:hub-of-hub", dict(info, uses=got, note=extra, inner_uses_left=left,
                                                     same_object=outer is inner))


def check(ctx):
    al = common.import_audiolazy()
    warnings.simplefilter("ignore")
    ctx.rule = ("M2: every history enumerated by TLC (all count tokens at depth <= 2, representative counts at "
                "depth <= 3/4) replayed on real objects; non-trivial = >= 2 calls; M3: random histories judged by TLC")
    ctx.assumptions = ["take(inf) on an endless stream and a never-passing filter on an endless stream are "
                       "excluded (they do not terminate)", "float counts are not exact ties",
                       "a stream appended to another / handed to tee or thub is not used again (documented)"]
    misc(ctx, al)
    hub_of_hub(ctx, al)
    m2(ctx, al, "StreamHistC03_tokens.cfg", "every count token, depth 2")
    if ctx.thorough:
        m2(ctx, al, "StreamHistC03_quick.cfg", "representative counts, depth 3")
        m2(ctx, al, "StreamHistC03_thorough.cfg", "core methods, depth 4",
           need={"take", "next", "copy", "peek", "skip", "limit", "append", "map", "filter"})
        m3(ctx, al, 400, 40)
    else:
        m2(ctx, al, "StreamHistC03_quick.cfg", "representative counts, depth 3")
        m3(ctx, al, 60, 30)
    ctx.exhaustive = True
