"""C19 - signal generators produce their closed-form sequences and lengths.

M1  TLC: spec/dsp/Synth.tla on the SynthC19 grid: per-generator machines shaped like the code (the eight
    modulo_counter branches with the batched fast path, line/ones/zeros/impulse/noise counters, adsr/attack
    phase machines, TableLookup on top of the counter, the resampler's deque/idx/threshold loop, the
    karplus_strong register machine) against the closed forms of the statement.
M2  spec -> code: every state TLC reached (case, n, out, done) is replayed on the real generator through several
    argument routes (Fraction / float / int values, list / tuple / Stream / generator streams, fadein/fadeout,
    table cycles, memory containers); the n samples and the end of the generator are compared with what TLC
    exported.  Where the statement is less specific than the operational layer (time-varying modulo, stream
    sustain, resampling window) a disagreement goes to TLC for a second opinion against the definition layer
    and is a violation only if TLC rejects it.  Noise runs are judged by TLC (length and range).
M3  code -> spec: seeded random, larger cases (lengths up to some hundreds, bigger tables, orders, ratios) are
    run on the real code and the records judged by TLC through spec/trace/SynthTrace.tla (operators of Synth).
Harness-only (stated in the level note): sinusoid(f, p)[n] against math.sin(p + sum of f) - sin is trusted to libm.
"""
import itertools
import math
import os
from fractions import Fraction

import common
import tlaval
import tlc
import tracecheck
from exact import LinForm, frac, rat

TOL = 1e-9
INF = float("inf")
SECOND_OPINION = ("mc", "attack", "rs")      # statement less specific than the operational layer
TOL_GENS = ("line", "adsr", "attack", "tl", "tlget", "ks", "rs")   # code leaves exact arithmetic (float literals, 2*pi, 1./a)


# ------------------------------------------------------------------------------------------------
# spec values <-> Python
def fr(p):
    return Fraction(p[0], p[1])


def is_dyadic(f):
    d = f.denominator
    return d & (d - 1) == 0


def arg_vals(a):
    return [fr(a["v"])] if a["k"] == "n" else [fr(x) for x in a["s"]]


def case_dyadic(case):
    vals = []
    for k, v in case.items():
        if isinstance(v, dict) and "k" in v and v["k"] in ("n", "s"):
            vals += arg_vals(v)
        elif isinstance(v, dict) and v.get("k") == "num":
            vals.append(fr(v["v"]))
        elif isinstance(v, (tuple, list)) and len(v) == 2 and all(isinstance(x, int) for x in v):
            vals.append(fr(v))
    return all(is_dyadic(x) for x in vals)


def num(f, route):
    """a Fraction as the Python number of the route"""
    if route == "frac":
        return f
    if route == "float":
        return float(f)
    if route == "native":
        return int(f) if f.denominator == 1 else float(f)
    raise ValueError(route)


def container(items, croute):
    if croute == "list":
        return list(items)
    if croute == "tuple":
        return tuple(items)
    if croute == "gen":
        return (x for x in list(items))
    if croute == "iter":
        return iter(list(items))
    if croute == "stream":
        return AL.Stream(list(items))
    raise ValueError(croute)


def pyarg(a, route, croute):
    if a["k"] == "n":
        return num(fr(a["v"]), route)
    return container([num(fr(x), route) for x in a["s"]], croute)


def pydur(d, route):
    if d["k"] == "inf":
        return INF
    if d["k"] == "none":
        return None
    return num(fr(d["v"]), route)


AL = None


# ------------------------------------------------------------------------------------------------
# building the real generator for a case
def build(case, route, croute, variant, ns):
    """-> iterable (the real audiolazy object).  `variant` selects alternative public entry points."""
    al = AL
    g = case["gen"]
    if g == "mc":
        return al.modulo_counter(pyarg(case["start"], route, croute), pyarg(case["modulo"], route, croute),
                                 pyarg(case["step"], route, croute))
    if g == "line":
        dur, b, e = num(fr(case["dur"]), route), num(fr(case["begin"]), route), num(fr(case["end"]), route)
        if variant == 1 and not case["fin"] and fr(case["begin"]) == 0 and fr(case["end"]) == 1:
            return al.fadein(dur)
        if variant == 1 and not case["fin"] and fr(case["begin"]) == 1 and fr(case["end"]) == 0:
            return al.fadeout(dur)
        if variant == 2 and not case["fin"]:
            return al.line(dur, b, e)
        return al.line(dur, b, e, finish=bool(case["fin"]))
    if g == "const":
        f = al.ones if case["which"] == "ones" else (al.zeros if variant != 1 else al.zeroes)
        if case["dur"]["k"] == "none" and variant == 2:
            return f()
        return f(pydur(case["dur"], route))
    if g == "impulse":
        one, zero = fr(case["one"]), fr(case["zero"])
        if case["dur"]["k"] == "none" and variant == 2:
            return al.impulse(one=one, zero=zero)
        return al.impulse(pydur(case["dur"], route), one=one, zero=zero)
    if g == "noise":
        if case["which"] == "white":
            return al.white_noise(pydur(case["dur"], route), low=num(fr(case["low"]), "native"),
                                  high=num(fr(case["high"]), "native"))
        return al.gauss_noise(pydur(case["dur"], route))
    if g == "adsr":
        return al.adsr(*[num(fr(case[k]), route) for k in ("dur", "a", "d", "s", "r")])
    if g == "attack":
        return al.attack(num(fr(case["a"]), route), num(fr(case["d"]), route), pyarg(case["s"], route, croute))
    if g in ("tl", "tlget"):
        size = case["size"]
        table = [LinForm.sym(i + 1) for i in range(size)]
        cycles = (1, 2, 3)[variant % 3]
        tl = al.TableLookup(table if variant < 3 else tuple(table), cycles)
        if g == "tlget":
            return [tl[num(fr(case["idx"]), route)]]
        cl = float(size) / (cycles * 2 * math.pi)

        def conv(a):           # "accepts streams of numbers, as well as numbers": Stream objects, not lists
            if a["k"] == "n":
                return float(fr(a["v"])) / cl
            return al.Stream(container([float(fr(x)) / cl for x in a["s"]], croute))
        if variant % 2:
            tl(0.25, 1.5).take(3)      # the oscillator object has been used before: no trace in the next use
        if variant % 4 == 3:
            # ... and an oscillator that played another table before: it interpolates its CURRENT table
            other = al.TableLookup([LinForm.sym(size - i) * 2 for i in range(size)], cycles)
            other(0.25, 1.5).take(size + 2)
            other.table = list(table)
            tl = other
        return tl(conv(case["step"]), conv(case["part"]))
    if g == "rs":
        sig = container([LinForm.sym(i + 1) for i in range(case["len"])], croute)
        k = (1, 2, 3)[variant % 3]
        old, new = fr(case["old"]) * k, fr(case["new"]) * k
        if route != "frac":
            old, new = num(old, route), num(new, route)
        zero = LinForm.sym(ns) if case["zero"] == "sym" else (0 if variant % 2 else 0.)
        return al.resample(sig, old=old, new=new, order=case["order"], zero=zero)
    if g == "ks":
        delay, alpha = fr(case["delay"]), fr(case["alpha"])
        regs = int(delay) + (0 if delay.denominator == 1 else 1)
        mem = [LinForm.sym(k) for k in range(1, regs + 3)]      # longer than needed is allowed
        tau = INF if alpha == 1 else -float(delay) / math.log(float(alpha))
        freq = 2 * math.pi / float(delay)
        return al.karplus_strong(freq, tau=tau, memory=container(mem, croute if croute in ("list", "tuple") else "list"))
    raise ValueError(g)


def pull(make, want):
    """Observe at most `want` samples: (err, samples, ended-by-itself)."""
    out = []
    try:
        it = iter(make())
        for _ in range(want):
            try:
                out.append(next(it))
            except StopIteration:
                return "none", out, True
        return "none", out, False
    except Exception as ex:                       # noqa - every exception class is an observation
        return type(ex).__name__, out, False


# ------------------------------------------------------------------------------------------------
# comparing observations with values TLC exported
def as_fraction(v):
    if isinstance(v, bool):
        return None
    if isinstance(v, (int, Fraction)):
        return Fraction(v)
    if isinstance(v, float) and v == v and abs(v) != INF:
        return Fraction(v)
    return None


def close(v, e, tol_ok):
    f = as_fraction(v)
    if f is None:
        return False
    if f == e:
        return True
    return bool(tol_ok) and abs(f - e) <= Fraction(TOL) * (1 + abs(e))


def lin_coefs(v, ns):
    """observed sample of a linear generator -> {symbol: Fraction} or None"""
    if isinstance(v, LinForm):
        if any(k < 1 or k > ns for k in v.c):
            return None
        return dict(v.c)
    f = as_fraction(v)
    if f is not None and f == 0:
        return {}
    return None


def same_sample(case, v, e, ns, tol_ok):
    if case["gen"] in ("tl", "tlget", "rs", "ks"):
        c = lin_coefs(v, ns)
        if c is None:
            return False
        return all(close(c.get(j + 1, Fraction(0)), fr(e[j]), tol_ok) for j in range(ns))
    return close(v, fr(e), tol_ok)


def show(v):
    return repr(v) if not isinstance(v, float) else repr(v)


# ------------------------------------------------------------------------------------------------
# records for TLC (second opinions, noise, M3)
BAD = [0, 0]      # a sample that is not a number on the lattice: no specification value equals it


def snap(v, lat, tol_ok):
    """number -> [n, d] on the lattice of denominators <= lat (rule |v - q| <= 1e-9 (1 + |q|)), or BAD"""
    f = as_fraction(v)
    if f is None:
        return BAD
    if f.denominator <= lat and abs(f.numerator) < (1 << 30):
        return [f.numerator, f.denominator]
    if not tol_ok:
        return BAD
    q = f.limit_denominator(lat)
    if abs(f - q) <= Fraction(TOL) * (1 + abs(q)) and abs(q.numerator) < (1 << 30):
        return [q.numerator, q.denominator]
    return BAD


def jarg(a):
    return {"k": "n", "v": list(a["v"])} if a["k"] == "n" else {"k": "s", "s": [list(x) for x in a["s"]]}


def jcase(case):
    out = {}
    for k, v in case.items():
        if isinstance(v, dict) and v.get("k") in ("n", "s"):
            out[k] = jarg(v)
        elif isinstance(v, dict):
            out[k] = {kk: (list(vv) if isinstance(vv, (tuple, list)) else vv) for kk, vv in v.items()}
        elif isinstance(v, (tuple, list)):
            out[k] = list(v)
        else:
            out[k] = v
    return out


def record(case, err, out, ended, ns, lat, tol_ok=None):
    g = case["gen"]
    if tol_ok is None:
        tol_ok = g in TOL_GENS
    if not tol_ok:
        lat = 1 << 20
    if g == "noise":
        enc = []
        for v in out:
            if isinstance(v, float) and abs(v) < 16000:
                enc.append([int(math.floor(v * 65536)), int(math.ceil(v * 65536))])
            else:
                enc.append([-(1 << 30), 1 << 30])
    elif g in ("tl", "tlget", "rs", "ks"):
        enc = []
        for v in out:
            c = lin_coefs(v, ns)
            enc.append([BAD] * ns if c is None else [snap(c.get(j + 1, Fraction(0)), lat, tol_ok) for j in range(ns)])
    else:
        enc = [snap(v, lat, tol_ok) for v in out]
    rec = {"case": jcase(case), "out": enc, "ended": bool(ended),
           "err": err if err == "none" else "exc"}
    if tol_ok:
        rec["lat"] = lat
    return rec


def situation(case):
    g = case["gen"]
    if g == "line":
        return "zero-length" if fr(case["dur"]) < Fraction(1, 2) else "line"
    if g == "adsr":
        return "zero-segment" if any(fr(case[k]) == 0 for k in "adr") else "adsr"
    if g == "attack":
        return "zero-segment" if any(fr(case[k]) == 0 for k in "ad") else "attack"
    if g == "mc":
        kinds = "".join("S" if case[k]["k"] == "s" else "N" for k in ("start", "modulo", "step"))
        return "kinds=" + kinds
    if g in ("const", "impulse", "noise"):
        return case.get("which", g) + "-dur=" + case["dur"]["k"]
    if g == "rs":
        return "end-of-input"
    return g


def case_text(case):
    def one(v):
        if isinstance(v, dict) and v.get("k") == "n":
            return str(fr(v["v"]))
        if isinstance(v, dict) and v.get("k") == "s":
            return "[" + ",".join(str(fr(x)) for x in v["s"]) + "]"
        if isinstance(v, dict) and v.get("k") == "num":
            return str(fr(v["v"]))
        if isinstance(v, dict):
            return v.get("k")
        if isinstance(v, (tuple, list)):
            return str(fr(v))
        return str(v)
    return " ".join("%s=%s" % (k, one(v)) for k, v in sorted(case.items()) if k != "cap")


def flag(ctx, case, failure, detail):
    sit = situation(case)
    if case["gen"] == "rs" and not failure.startswith("exc="):
        sit = "interpolation"
    ctx.violation("C19:%s:%s:%s" % (case["gen"], sit, failure),
                  dict(detail, case=case_text(case)))


# ------------------------------------------------------------------------------------------------
VROUTES = ("frac", "float", "native")
CROUTES = ("list", "stream", "gen", "tuple", "iter")


def rs_float_ok(case):
    """ints as old/new make the step a float: used only where the positions stay exact (dyadic step)"""
    return is_dyadic(fr(case["old"]) / fr(case["new"])) and \
        3 ** case["order"] * math.factorial(case["order"]) <= 4096


def routes_for(case, final, k):
    """(value route, container route, variant) triples to replay a state through"""
    g = case["gen"]
    if g == "mc":
        vr = VROUTES if case_dyadic(case) else ("frac",)
    elif g in ("tl", "ks"):
        vr = ("float",)
    elif g == "tlget":
        vr = ("float", "frac")
    elif g == "rs":
        vr = ("frac", "native") if rs_float_ok(case) else ("frac",)
    elif g == "noise":
        vr = ("native",)
    else:
        vr = VROUTES
    if g == "ks":
        cr = ("list", "tuple")
    elif g == "rs" or any(isinstance(v, dict) and v.get("k") == "s" for v in case.values()):
        cr = CROUTES
    else:
        cr = ("list",)
    if not final:
        return [(vr[k % len(vr)], cr[k % len(cr)], k % 6)]
    res = [(v, c, (i + j + k) % 6) for i, v in enumerate(vr) for j, c in enumerate(cr)]
    if g in ("line", "const", "impulse", "tl", "tlget", "rs"):
        res += [(vr[0], cr[var % len(cr)], var) for var in range(6)]
    return res


def m2(ctx, cfg, ns):
    d = tlc.scratch_dir("c19")
    dump = os.path.join(d, "states")
    need = ("StepCounter", "StepLine", "StepConst", "StepEnvelope", "StepTable", "StepResample", "StepKarplus")
    r = tlc.require_ok(tlc.run("SynthC19", cfg, dump=dump), "SynthC19", need_actions=need)
    ctx.add_tlc(r, "Synth (C19 grid): generator machines == closed forms")
    nstates = 0
    pending = []          # (record, meta) for TLC's second opinion / noise
    per_gen = {}
    for st in tlaval.read_dump(dump + ".dump"):
        nstates += 1
        case, n, done, exp = st["case"], st["n"], st["done"], st["out"]
        g = case["gen"]
        per_gen[g] = per_gen.get(g, 0) + 1
        final = done or n == case["cap"]
        want = n + 1 if done else n
        tol_ok = g in TOL_GENS
        for (vr, cr, var) in routes_for(case, final, nstates):
            err, out, ended = pull(lambda: build(case, vr, cr, var, ns), want)
            ctx.count(1, nontrivial_key=(case_text(case), n) if n >= 2 else None)
            meta = {"n": n, "spec_done": done, "route": [vr, cr, var], "err": err, "ended": ended,
                    "observed": [show(v) for v in out[:8]]}
            if nstates % 1499 == 0 and vr == "float":
                ctx.sample({"case": case_text(case), "n": n, "done": done, "observed": [show(v) for v in out[:6]]})
            if g == "noise":
                if final:
                    pending.append((record(case, err, out, ended, ns, 1024), meta))
                elif err != "none" or len(out) != n:
                    flag(ctx, case, "length" if err == "none" else "exc=" + err, meta)
                continue
            ok = (err == "none" and len(out) == n and ended == done and
                  all(same_sample(case, v, e, ns, tol_ok and not (g == "rs" and vr == "frac"))
                      for v, e in zip(out, exp)))
            if ok:
                continue
            meta["expected"] = [str([str(fr(x)) for x in e]) if g in ("tl", "tlget", "rs", "ks") else str(fr(e))
                                for e in exp[:8]]
            if err != "none":
                flag(ctx, case, "exc=" + err, meta)
            elif g in SECOND_OPINION:
                pending.append((record(case, err, out, ended, ns, 4096,
                                       tol_ok=(False if (g == "rs" and vr == "frac") else None)), meta))
            else:
                flag(ctx, case, "length" if len(out) != n or ended != done else "value", meta)
    if nstates != r.distinct:
        raise tlc.MachineryError("dump has %d states, TLC reported %d" % (nstates, r.distinct))
    ctx.traces += nstates
    ctx.log("M2: %d spec states replayed (%s); %d observations go to TLC (noise / second opinions)" %
            (nstates, ", ".join("%s %d" % kv for kv in sorted(per_gen.items())), len(pending)))
    judge(ctx, pending, ns, "C19 M2 noise runs and second opinions", diagnostics=True)


def judge(ctx, pending, ns, what, diagnostics=False):
    if not pending:
        return 0
    recs = [p[0] for p in pending]
    bad = tracecheck.run_records(ctx, "SynthTrace", {"NS": ns, "Cases": "{}"}, recs, what=what, chunk=400)
    for i, info in sorted(bad.items()):
        rec, meta = pending[i - 1]
        clause = info[0]
        if clause in ("uncovered", "lattice"):
            raise tlc.MachineryError("%s: record %d outside the trace module's domain (%s): %s" %
                                     (what, i, clause, case_text_json(rec["case"])))
        flag(ctx, unjson(rec["case"]), clause, dict(meta, clause=clause))
    if diagnostics:
        acc = [p for k, p in enumerate(pending, 1) if k not in bad and p[0]["case"]["gen"] != "noise"]
        if acc:
            ctx.log("diagnostics: %d observation(s) differ from the operational layer but keep the statement, e.g. %s %s"
                    % (len(acc), case_text_json(acc[0][0]["case"]), acc[0][1].get("observed")))
    ctx.traces += len(recs) - len(bad)
    return len(bad)


def unjson(c):
    """JSON case -> the shape parsed from TLC dumps (lists stay lists: fr() accepts both)"""
    return c


def case_text_json(c):
    return case_text(c)


# ------------------------------------------------------------------------------------------------
# M3: random, larger cases
def rnd_dyadic(rng, lo, hi, den):
    return Fraction(rng.randint(lo * den, hi * den), den)


def N(v):
    return {"k": "n", "v": rat(v)}


def S(vs):
    return {"k": "s", "s": [rat(v) for v in vs]}


def D(v):
    return {"k": "num", "v": rat(v)}


def gen_case(rng, big):
    """one random covered case (JSON shape) + number of samples to request"""
    g = rng.choice(["mc", "mc", "mc", "mc", "line", "line", "const", "impulse", "noise", "adsr", "attack",
                    "tl", "tl", "tlget", "rs", "rs", "rs", "ks"])
    L = rng.randint(0, big)
    if g == "mc":
        thirds = rng.random() < 0.2
        den = 3 if thirds else rng.choice([1, 2, 4, 8])

        def val(lo, hi):
            return rnd_dyadic(rng, lo, hi, den * rng.choice([1, 2]) if thirds else den)

        def arg(lo, hi, kind):
            if kind == "n":
                return N(val(lo, hi))
            ln = rng.choice([L, L, rng.randint(0, big)])
            if kind == "c":
                return S([val(lo, hi)] * max(ln, 1))
            return S([val(lo, hi) for _ in range(ln)])
        kinds = [rng.choice(["n", "n", "c", "s"]) for _ in range(3)]
        if thirds:
            kinds[0] = "n"                      # the accumulator stays exact only with a number as start
        start = arg(-8, 8, kinds[0])
        modulo = arg(1, 8, kinds[1])
        if modulo["k"] == "n":
            modulo = N(max(fr(modulo["v"]), Fraction(1, den)))
        else:
            modulo = S([max(fr(x), Fraction(1, 2 * den)) for x in modulo["s"]])
        m0 = fr(modulo["v"]) if modulo["k"] == "n" else (fr(modulo["s"][0]) if modulo["s"] else Fraction(1))
        special = rng.random()
        if kinds[2] == "n" and special < 0.15:
            step = N(m0 * rng.choice([1, 2, -1, 3]))           # multiple of the modulo
        elif kinds[2] == "n" and special < 0.25:
            step = N(0)
        elif kinds[2] == "n" and special < 0.45:
            step = N(m0 / rng.choice([2, 3, 4, 5, 7]) if not thirds else m0 / rng.choice([2, 3]))
            if not thirds and not is_dyadic(fr(step["v"])):
                step = N(m0 / 4)
        else:
            step = arg(-8, 8, kinds[2])
        return {"gen": "mc", "cap": L, "start": start, "modulo": modulo, "step": step}, L + 1
    if g == "line":
        dur = Fraction(rng.randint(0, 4 * big), rng.choice([1, 1, 2, 4]))
        b, e = rnd_dyadic(rng, -4, 4, 4), rnd_dyadic(rng, -4, 4, 4)
        fin = rng.random() < 0.5
        c = {"gen": "line", "cap": big * 4 + 2, "dur": rat(dur), "begin": rat(b), "end": rat(e), "fin": fin}
        slope_den = (dur - (1 if fin else 0))
        if slope_den == 0 and int(dur + Fraction(1, 2)) >= 1:
            return None
        if slope_den != 0 and abs(slope_den.numerator) * 4 > 1024:
            return None
        return c, big * 4 + 2
    if g in ("const", "impulse", "noise"):
        k = rng.random()
        dur = {"k": "inf"} if k < 0.1 else ({"k": "none"} if k < 0.2 else
                                            D(Fraction(rng.randint(0, 4 * big), rng.choice([1, 2, 4]))))
        want = big if dur["k"] != "num" else int(fr(dur["v"])) + 3
        if g == "const":
            return {"gen": "const", "cap": want, "which": rng.choice(["ones", "zeros"]), "dur": dur}, want
        if g == "impulse":
            return {"gen": "impulse", "cap": want, "dur": dur, "one": rat(rnd_dyadic(rng, -4, 4, 4)),
                    "zero": rat(rnd_dyadic(rng, -4, 4, 4))}, want
        lo = rnd_dyadic(rng, -4, 4, 4)
        hi = lo + rnd_dyadic(rng, 0, 4, 4)
        return {"gen": "noise", "cap": want, "which": rng.choice(["white", "white", "gauss"]), "dur": dur,
                "low": rat(lo), "high": rat(hi)}, want
    if g in ("adsr", "attack"):
        a = Fraction(rng.randint(0, 30), rng.choice([1, 2]))
        d = Fraction(rng.randint(0, 30), rng.choice([1, 2]))
        s = rnd_dyadic(rng, 0, 1, 4)
        if g == "adsr":
            r = Fraction(rng.randint(0, 30), rng.choice([1, 2]))
            segs = sum(int(x + Fraction(1, 2)) for x in (a, d, r))
            dur = Fraction(2 * segs + rng.randint(0, 40), 2)
            if int(dur + Fraction(1, 2)) < segs:
                dur += 1
            return {"gen": "adsr", "cap": 200, "dur": rat(dur), "a": rat(a), "d": rat(d), "s": rat(s), "r": rat(r)}, 200
        if rng.random() < 0.5:
            sus = N(s)
        else:
            sus = S([s] + [rnd_dyadic(rng, 0, 1, 8) for _ in range(rng.randint(0, 30))])
        return {"gen": "attack", "cap": 100, "a": rat(a), "d": rat(d), "s": sus}, 100
    if g == "tl":
        size = rng.randint(1, 16)
        den = rng.choice([1, 2, 4, 8])

        def targ(lo, hi):
            if rng.random() < 0.6:
                return N(rnd_dyadic(rng, lo, hi, den))
            return S([rnd_dyadic(rng, lo, hi, den) for _ in range(rng.choice([L, rng.randint(0, big)]))])
        return {"gen": "tl", "cap": L, "size": size, "part": targ(-20, 20), "step": targ(-6, 6)}, L + 1
    if g == "tlget":
        size = rng.randint(1, 16)
        return {"gen": "tlget", "cap": 2, "size": size, "idx": rat(rnd_dyadic(rng, 0, 60, rng.choice([1, 2, 4, 8])))}, 2
    if g == "rs":
        order = rng.randint(1, 5)
        q = rng.randint(1, 5)
        p = rng.randint(1, 7)
        if (q ** order * math.factorial(order)) ** 2 >= (1 << 29):
            return None
        ln = rng.randint(0, 36)
        return {"gen": "rs", "cap": 400, "len": ln, "old": rat(p), "new": rat(q), "order": order,
                "zero": rng.choice(["sym", "num"])}, 400
    if g == "ks":
        Lk = rng.randint(1, 8)
        f = rng.choice([Fraction(0), Fraction(1, 2), Fraction(1, 4), Fraction(3, 4)])
        alpha = rng.choice([Fraction(1), Fraction(1, 2), Fraction(3, 4)])
        growth = alpha.denominator * f.denominator
        levels = 1
        while growth ** (levels + 1) <= 4096 and levels < 12:
            levels += 1
        if growth == 1:
            levels = 12
        n = rng.randint(1, min(levels * Lk, 60))
        return {"gen": "ks", "cap": n, "delay": rat(Lk + f), "alpha": rat(alpha)}, n
    raise ValueError(g)


def m3(ctx, count, big, ns):
    rng = ctx.rng
    pending = []
    tries = 0
    per_gen = {}
    while len(pending) < count and tries < count * 20:
        tries += 1
        gc = gen_case(rng, big)
        if gc is None:
            continue
        case, want = gc
        g = case["gen"]
        if g in ("tl", "tlget") and case["size"] + 1 > ns:
            continue
        if g == "mc" and not case_dyadic(case):
            vr = "frac"
        elif g in ("tl", "ks"):
            vr = "float"
        elif g == "rs":
            vr = "frac"
        elif g == "noise":
            vr = "native"
        else:
            vr = rng.choice(VROUTES)
        cr = rng.choice(CROUTES)
        var = rng.randint(0, 5)
        err, out, ended = pull(lambda: build(case, vr, cr, var, ns), want)
        lat = 4096 if g == "ks" else 1024
        rec = record(case, err, out, ended, ns, lat, tol_ok=(False if g == "rs" else None))
        meta = {"route": [vr, cr, var], "err": err, "ended": ended, "requested": want,
                "observed": [show(v) for v in out[:8]], "len": len(out)}
        if err != "none":
            flag(ctx, case, "exc=" + err, meta)
            continue
        pending.append((rec, meta))
        per_gen[g] = per_gen.get(g, 0) + 1
        ctx.count(1, nontrivial_key=("m3", len(pending)) if len(out) >= 3 else None)
    if pending:
        ctx.sample({"recorded": case_text(pending[0][0]["case"]), "observed": pending[0][1]["observed"]})
    nbad = judge(ctx, pending, ns, "C19 recorded generator runs")
    ctx.log("M3: %d recorded runs judged by TLC (%s), %d rejected" %
            (len(pending), ", ".join("%s %d" % kv for kv in sorted(per_gen.items())), nbad))


# ------------------------------------------------------------------------------------------------
def sinusoids(ctx, count, big):
    """sinusoid(freq, phase)[n] == sin(phase_n + sum_{i<n} freq_i), sin itself trusted to libm."""
    rng = ctx.rng
    al = AL
    for k in range(count):
        n = rng.randint(1, big)
        fkind, pkind = rng.choice("ns"), rng.choice("nns")
        fs = [rng.uniform(-3, 3)] * n if fkind == "n" else [rng.uniform(-3, 3) for _ in range(n)]
        ps = [rng.uniform(-7, 7)] * n if pkind == "n" else [rng.uniform(-7, 7) for _ in range(n)]
        if rng.random() < 0.15:
            fs = [0.0] * n if fkind == "n" else fs
        farg = fs[0] if fkind == "n" else container(fs, rng.choice(CROUTES))
        parg = ps[0] if pkind == "n" else container(ps, rng.choice(CROUTES))
        err, out, ended = pull(lambda: al.sinusoid(farg, parg), n + (1 if "s" in (fkind, pkind) else 0))
        ctx.count(1)
        acc = 0.0
        bad = None
        if err != "none" or len(out) != n or (("s" in (fkind, pkind)) != ended):
            bad = {"why": "length/exception", "err": err, "len": len(out), "n": n, "ended": ended}
        else:
            for i in range(n):
                want = math.sin(ps[i] + acc)
                if not abs(out[i] - want) <= TOL * (i + 1):
                    bad = {"why": "value", "i": i, "observed": out[i], "expected": want}
                    break
                acc += fs[i]
        if bad:
            ctx.violation("C19:sinusoid:kinds=%s%s:%s" % (fkind, pkind, bad["why"]),
                          dict(bad, freq=fs[:6], phase=ps[:6]))
    ctx.log("sinusoid: %d runs compared with math.sin (harness-only clause)" % count)


def check(ctx):
    global AL
    AL = common.import_audiolazy()
    ctx.rule = ("M2: every state (case, n) of the TLC run replayed through value/container/entry-point routes; "
                "non-trivial = n >= 2 samples; M3: random larger cases judged by TLC with >= 3 samples")
    ctx.assumptions = [
        "modulo_counter: modulo > 0; time-varying modulo: either reading of the statement accepted, range always demanded",
        "durations >= 0; line: cases where a sample exists but dur = finish (slope undefined) are outside the statement",
        "adsr: a, d, r >= 0 and dur at least the three segments; attack: a non-empty sustain stream, whose first "
        "value is the decay target (repetition of it afterwards left open)",
        "TableLookup.__getitem__: index >= 0; noise: only length and range (white) are decided",
        "resample: old, new > 0, order >= 1; any window of order+1 consecutive samples enclosing the position is "
        "accepted, an output is demanded when every such window lies inside the input",
        "float results: |code - exact| <= 1e-9 (1 + |exact|) only where the code leaves exact arithmetic "
        "(float literals, 1./a, 2*pi); modulo_counter, ones/zeros/impulse and resample with Fractions are compared exactly",
        "sinusoid: the value of sin is trusted to libm (compared with math.sin in the harness, not by TLC)",
    ]
    if ctx.thorough:
        m2(ctx, "SynthC19_thorough.cfg", 8)
        m3(ctx, 4000, 80, 40)
        sinusoids(ctx, 400, 2000)
    else:
        m2(ctx, "SynthC19_quick.cfg", 8)
        m3(ctx, 400, 40, 40)
        sinusoids(ctx, 60, 300)
    ctx.exhaustive = True
