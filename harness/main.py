"""CLI: check / replay / sany."""
import argparse
import glob
import importlib
import json
import os
import subprocess
import sys
import traceback

sys.path.insert(0, os.path.dirname(os.path.abspath(__file__)))
import common
import tlc


def cmd_check(a):
    tier = a.tier or os.environ.get("VERIF_TIER") or "quick"
    seed = int(os.environ.get("VERIF_SEED", "0") or 0)
    ctx = common.Ctx(a.id, tier, seed)
    try:
        mod = importlib.import_module("drive_" + a.id.lower())
        mod.check(ctx)
        return ctx.finish()
    except tlc.MachineryError as ex:
        print("MACHINERY-FAILURE property=%s: %s" % (a.id, ex))
        if ctx.violations:
            # the code already disagreed with the specification on recorded cases before the machinery gave up
            # (typically a vacuity guard that no longer sees a clause exercised because every call raised):
            # the disagreement is the verdict
            print("(violations were recorded before the machinery failure: reporting them)")
            return ctx.finish()
        return 2
    except Exception as ex:
        traceback.print_exc()
        if ctx.violations:
            print("(violations were recorded before the harness stopped: reporting them)")
            return ctx.finish()
        # an exception RAISED INSIDE THE LIBRARY on an input the specification gives a value for (every driver feeds
        # only inputs of the property's quantifier, and on code that keeps the property no such call raises - the
        # same deterministic inputs pass on the unchanged tree): that is the code disagreeing with the specification,
        # not a failure of the machinery.  Import / syntax errors of the tree under test stay exit 2.
        tb = traceback.extract_tb(ex.__traceback__)
        pkg = os.path.join(os.path.realpath(common.REPO), "audiolazy") + os.sep
        inner = tb[-1] if tb else None
        in_lib = inner is not None and os.path.realpath(inner.filename).startswith(pkg)
        if in_lib and not isinstance(ex, (ImportError, SyntaxError, MemoryError, RecursionError)) \
                and any(not os.path.realpath(f.filename).startswith(pkg) and "drive_" in f.filename for f in tb):
            caller = [f for f in tb if "drive_" in f.filename or "_lib" in f.filename][-1]
            ctx.violation("%s:library-raised:%s" % (a.id, type(ex).__name__),
                          {"exception": "%s: %s" % (type(ex).__name__, str(ex)[:300]),
                           "raised_at": "%s:%d %s" % (os.path.relpath(inner.filename, common.REPO), inner.lineno, inner.name),
                           "called_from": "%s:%d %s" % (os.path.basename(caller.filename), caller.lineno, caller.name),
                           "line": inner.line})
            return ctx.finish()
        print("MACHINERY-FAILURE property=%s (uncaught exception in harness)" % a.id)
        return 2


def cmd_replay(a):
    with open(a.path) as fh:
        rep = json.load(fh)
    ctx = common.Ctx(a.id, rep.get("tier", "quick"), int(rep.get("seed", 0)))
    mod = importlib.import_module("drive_" + a.id.lower())
    if hasattr(mod, "replay"):
        return mod.replay(ctx, rep)
    print(json.dumps(rep, indent=1))
    print("(no dedicated replayer: re-running the check with the recorded seed)")
    os.environ["VERIF_SEED"] = str(rep.get("seed", 0))
    mod.check(ctx)
    return ctx.finish()


def cmd_sany(a):
    bad = 0
    for d in tlc.SPEC_DIRS:
        for f in sorted(glob.glob(os.path.join(d, "*.tla"))):
            p = subprocess.run(["java", "-DTLA-Library=" + os.pathsep.join(tlc.SPEC_DIRS), "-cp",
                                os.pathsep.join(tlc.JARS), "tla2sany.SANY", f],
                               stdout=subprocess.PIPE, stderr=subprocess.STDOUT, universal_newlines=True,
                               cwd=d)
            ok = p.returncode == 0 and "*** Errors" not in p.stdout and "Fatal" not in p.stdout \
                and "Could not" not in p.stdout
            print("%-40s %s" % (os.path.relpath(f, tlc.SPEC), "ok" if ok else "ERROR"))
            if not ok:
                print(p.stdout[-2000:])
                bad += 1
    return 1 if bad else 0


def main():
    ap = argparse.ArgumentParser()
    sub = ap.add_subparsers(dest="cmd")
    c = sub.add_parser("check"); c.add_argument("id"); c.add_argument("--tier")
    r = sub.add_parser("replay"); r.add_argument("id"); r.add_argument("path")
    sub.add_parser("sany")
    a = ap.parse_args()
    if a.cmd == "check":
        sys.exit(cmd_check(a))
    if a.cmd == "replay":
        sys.exit(cmd_replay(a))
    if a.cmd == "sany":
        sys.exit(cmd_sany(a))
    ap.print_help()
    sys.exit(2)


main()
