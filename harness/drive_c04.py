"""C04 - a constant-coefficient filter computes its difference equation.

M1  TLC: spec/dsp/Filter.tla on the FilterC04 grid: register-shift machine == difference equation on
    linear-form samples, one output per input, refusal of negative delays, all-zero filter.
M2  spec -> code: every state TLC reached (case, n, out) is replayed: the real filter is built by every
    construction route and run on n LinForm samples; outputs compared with the spec's `out`.
M3  code -> spec: random filters of higher order / longer inputs are run and the records judged by TLC
    (spec/trace/FilterTrace.tla).
"""
import os
from fractions import Fraction

import common
import tlaval
import tlc
import tracecheck
from exact import LinForm, frac, rat, lin_vec, vec_to_lin


def coef_value(c):
    """spec coefficient -> Python number the library can format into source text exactly."""
    f = Fraction(c["v"][0], c["v"][1])
    if f.denominator == 1:
        return int(f)
    fl = float(f)
    if Fraction(fl) != f:
        raise tlc.MachineryError("coefficient %s is not a float" % f)
    return fl


def build(al, case, route):
    """Return a filter object for the case built through `route`."""
    b = [coef_value(c) for c in case["b"]]
    a = [coef_value(c) for c in case["a"]]
    adv = case["adv"]
    z = al.z
    if route == "list":
        if adv:
            return None
        return al.ZFilter(b, a)
    if route == "dict":
        return al.LinearFilter({k - adv: v for k, v in enumerate(b)}, {k: v for k, v in enumerate(a)})
    if route == "dendelay":
        if not adv:
            return None
        return al.ZFilter({k: v for k, v in enumerate(b)}, {k + adv: v for k, v in enumerate(a)})
    if route == "zexpr":
        num = sum(v * z ** -k for k, v in enumerate(b))
        den = sum(v * z ** -k for k, v in enumerate(a))
        if not isinstance(num, al.ZFilter):
            num = al.ZFilter([num])
        f = num / den
        if adv:
            f = f * z ** adv
        return f
    raise ValueError(route)


_INPUT_ROUTE = [0]
ROUTES = ("list", "dict", "zexpr", "dendelay")
MEMROUTES = ("list", "tuple", "gen", "callable", "longer", "stream")


def run_case(al, case, n, maxlen, maxmem, route, memroute, zero_num=0):
    """Observe the real filter: returns (err, [LinForm / number ...])."""
    ns = maxlen + 1 + maxmem
    f = build(al, case, route)
    if f is None:
        return None
    xs = [LinForm.sym(i) for i in range(1, n + 1)]
    zero = LinForm.sym(maxlen + 1) if case["zero"] == "sym" else zero_num
    la = 0
    for i, c in enumerate(case["a"]):
        if not (c["k"] == "c" and c["v"][0] == 0):
            la = i + 1
    lm = la - 1
    kw = {"zero": zero}
    if case["mem"] != "none":
        items = [LinForm.sym(maxlen + 1 + j) for j in range(1, lm + 1)]
        if memroute == "list":
            kw["memory"] = list(items)
        elif memroute == "tuple":
            kw["memory"] = tuple(items)
        elif memroute == "gen":
            kw["memory"] = (x for x in items)
        elif memroute == "callable":
            # "a callable memory is asked for the needed size": the sizes it is called with are recorded
            del ASKED[:]
            kw["memory"] = lambda size: (ASKED.append(size), [LinForm.sym(maxlen + 1 + j) for j in range(1, size + 1)])[1]
        elif memroute == "stream":
            kw["memory"] = al.Stream(list(items))       # a Stream is iterable AND callable: it is read, not called
        elif memroute == "longer":
            kw["memory"] = items + [LinForm.sym(maxlen + 1 + maxmem)] * 2
    # the input in one of its legal container forms (one-shot iterators included), cycled per call
    _INPUT_ROUTE[0] += 1
    r = _INPUT_ROUTE[0] % 5
    sig = xs if r == 0 else iter(xs) if r == 1 else (x for x in xs) if r == 2 else al.Stream(xs) if r == 3 else tuple(xs)
    if _INPUT_ROUTE[0] % 2:
        # the filter OBJECT has run before, on another input with another zero value and no memory: a call
        # leaves no trace in the next one (constant coefficients only: coefficient Streams are used up by a call)
        if all(c["k"] == "c" for c in case["b"] + case["a"]):
            try:
                list(f([5, -3, 2], zero=7))
            except Exception:                                   # noqa: the judged call below is what counts
                pass
    try:
        res = f(sig, **kw)
        out = list(res)
        return ("none", out)
    except ValueError:
        return ("ValueError", [])
    except Exception as ex:
        return (type(ex).__name__ + ": " + str(ex)[:80], [])


ASKED = []      # sizes the callable memory of the last run_case was asked for


def same(out, exp_vecs, ns):
    if len(out) != len(exp_vecs):
        return False
    for o, e in zip(out, exp_vecs):
        v = lin_vec(o, ns)
        if v is None or tuple(map(tuple, v)) != tuple(map(tuple, e)):
            return False
    return True


def case_key(case):
    def cs(v):
        return ",".join("%d/%d" % tuple(c["v"]) if c["k"] == "c" else "S" for c in v)
    return "b=[%s] a=[%s] mem=%s zero=%s adv=%d" % (cs(case["b"]), cs(case["a"]), case["mem"], case["zero"],
                                                  case["adv"])


def lm_of(case):
    """Filter.tla Lm: delay of the last non-zero denominator coefficient"""
    la = 0
    for i, c in enumerate(case["a"]):
        if not (c["k"] == "c" and c["v"][0] == 0):
            la = i + 1
    return la - 1


def noncausal(case):
    return any(not (c["k"] == "c" and c["v"][0] == 0) for c in case["b"][:case["adv"]])


def shape_key(case):
    """Class of the failing input used to key findings: which special situation the case is in."""
    no_terms = all(c["v"][0] == 0 for c in case["b"][case["adv"]:]) and all(c["v"][0] == 0 for c in case["a"][1:])
    if noncausal(case):
        return "noncausal"
    if no_terms:
        return "allzero-zero=%s" % case["zero"]
    return "diffeq"


def m2(ctx, al, module, cfg, maxlen, maxmem):
    d = tlc.scratch_dir("c04")
    dump = os.path.join(d, "states")
    r = tlc.require_ok(tlc.run(module, cfg, dump=dump), module, need_actions=("Step", "Refuse"))
    ctx.add_tlc(r, "Filter (C04 grid) register machine == difference equation")
    ns = maxlen + 1 + maxmem
    nstates = 0
    for st in tlaval.read_dump(dump + ".dump"):
        nstates += 1
        case, n = st["case"], st["n"]
        final = (n == maxlen) or st["err"] != "none"
        if noncausal(case) and st["err"] == "none":
            continue                      # the refusal is observed on the Refuse successor
        routes = ROUTES if final else (ROUTES[nstates % 3],)
        memroutes = MEMROUTES if (final and case["mem"] != "none") else (MEMROUTES[nstates % len(MEMROUTES)],)
        for route in routes:
            for memroute in memroutes:
                for znum in ((0, 0.0) if case["zero"] == "num" else (0,)):
                    obs = run_case(al, case, n, maxlen, maxmem, route, memroute, znum)
                    if obs is None:
                        continue
                    err, out = obs
                    ctx.count(1, nontrivial_key=(case_key(case), n) if n >= 2 else None)
                    ok = (err == st["err"]) and same(out, st["out"], ns)
                    if memroute == "callable" and case["mem"] != "none" and err == "none" and ASKED != [lm_of(case)] \
                            and not (lm_of(case) == 0 and ASKED == []):        # Filter.tla MemAskedOK
                        ctx.violation("C04:memory:callable-size",
                                      {"case": case_key(case), "n": n, "route": route, "asked": list(ASKED),
                                       "needed": lm_of(case)})
                    if nstates % 1201 == 0 and route == "zexpr":
                        ctx.sample({"case": case_key(case), "n": n, "route": route, "memory": memroute,
                                    "observed": [repr(o) for o in out]})
                    if not ok:
                        ctx.violation("C04:%s" % shape_key(case),
                                      {"case": case_key(case), "n": n, "route": route, "memory": memroute,
                                       "expected_err": st["err"], "err": err,
                                       "expected": [repr(vec_to_lin(e)) for e in st["out"]],
                                       "observed": [repr(o) for o in out]})
    if nstates != r.distinct:
        raise tlc.MachineryError("dump has %d states, TLC reported %d" % (nstates, r.distinct))
    ctx.traces += nstates
    ctx.log("M2: %d spec states replayed" % nstates)


def growth_ok(b, a, n, bits=26):
    """Magnitude screen that does not look at the code's output: bound on |coefficients| of y[t]."""
    a0 = abs(Fraction(a[0]))
    sb = sum(abs(Fraction(x)) for x in b) / a0
    sa = [abs(Fraction(x)) / a0 for x in a[1:]]
    y = []
    for t in range(n):
        v = sb + sum(s * (y[t - k - 1] if t - k - 1 >= 0 else 1) for k, s in enumerate(sa))
        y.append(v)
        if v.numerator.bit_length() > bits:
            return False
    den_bits = (Fraction(a[0]).numerator.bit_length()) * n
    return den_bits <= 24


def m3(ctx, al, count, maxlen, maxmem):
    rng = ctx.rng
    ns = maxlen + 1 + maxmem
    recs, meta = [], []
    tries = 0
    while len(recs) < count and tries < count * 50:
        tries += 1
        lb = rng.randint(0, 7)
        la = rng.randint(1, maxmem + 1)
        b = [rng.choice([-3, -2, -1, 0, 0, 1, 1, 2, 3, 5]) for _ in range(lb)]
        a = [rng.choice([1, 1, -1, 2, 3, -3, 5, 6])]      # (not only powers of two: 1/a0 must not be used rounded) + [rng.choice([-2, -1, 0, 0, 0, 1, 1, 2]) for _ in range(la - 1)]
        n = rng.randint(0, maxlen)
        while n > 0 and not growth_ok(b, a, n):
            n -= 1
        adv = 1 if rng.random() < 0.03 else 0
        case = {"b": [{"k": "c", "v": rat(x)} for x in b], "a": [{"k": "c", "v": rat(x)} for x in a],
                "mem": rng.choice(["none", "exact", "longer"]), "zero": rng.choice(["sym", "sym", "num"]),
                "adv": adv}
        if adv and not b:
            continue
        route = rng.choice(["list", "dict", "zexpr"] if not adv else ["dict", "zexpr", "dendelay"])
        memroute = rng.choice(MEMROUTES)
        obs = run_case(al, case, n, maxlen, maxmem, route, memroute, rng.choice([0, 0.0]))
        if obs is None:
            continue
        err, out = obs
        vecs = [lin_vec(o, ns) for o in out]
        if any(v is None for v in vecs):
            ctx.violation("C04:%s" % shape_key(case), {"case": case_key(case), "n": n, "route": route,
                                                      "observed": [repr(o) for o in out],
                                                      "why": "output is not an exact linear form"})
            continue
        spec_case = dict(case, mem=("exact" if case["mem"] == "longer" else case["mem"]))
        rec = {"case": spec_case, "len": n, "err": err if err in ("none", "ValueError") else "other", "out": vecs}
        if memroute == "callable" and case["mem"] != "none" and err == "none":
            rec["asked"] = list(ASKED)
        recs.append(rec)
        meta.append({"case": case_key(case), "n": n, "route": route, "memory": memroute, "err": err,
                     "observed": [repr(o) for o in out][:6]})
        ctx.count(1, nontrivial_key=("m3", len(recs)) if n >= 3 else None)
    bad = tracecheck.run_records(ctx, "FilterTrace", {"MaxLen": maxlen, "MaxMem": maxmem, "Cases": "{}"},
                                 recs, what="C04 recorded filter runs", chunk=400)
    ctx.traces += len(recs) - len(bad)
    ctx.log("M3: %d recorded runs judged by TLC, %d rejected" % (len(recs), len(bad)))
    if meta:
        ctx.sample({"recorded": meta[0]})
    for i, info in sorted(bad.items()):
        ctx.violation("C04:%s" % shape_key(recs[i - 1]["case"]), dict(meta[i - 1], clause=info[0]))


def check(ctx):
    al = common.import_audiolazy()
    ctx.rule = ("M2: every state (case, n) of the TLC run replayed through every construction/memory route; "
                "non-trivial = n >= 2; M3: random higher-order filters judged by TLC")
    ctx.assumptions = ["coefficients are integers or dyadic rationals (the library formats coefficients into "
                       "source text, so other Fractions would be evaluated as floats)",
                       "memories have at least the needed length (the property's quantifier)"]
    if ctx.thorough:
        m2(ctx, al, "FilterC04T", "FilterC04T.cfg", 4, 3)
        m3(ctx, al, 3000, 24, 6)
    else:
        m2(ctx, al, "FilterC04Q", "FilterC04Q.cfg", 4, 3)
        m3(ctx, al, 300, 16, 5)
    ctx.exhaustive = True
