"""Transition cover of a TLC state graph: BFS tree + one path per edge."""
from collections import deque


def cover(inits, edges):
    """edges: list of (src, dst, label). Returns (parent, order): parent[node] = (pred, edge index) of the
    BFS tree; order = nodes in BFS order.  Every edge e is covered by path(src(e)) + e."""
    out = {}
    for i, (s, d, lab) in enumerate(edges):
        out.setdefault(s, []).append(i)
    parent = {}
    order = []
    q = deque()
    for n in inits:
        parent[n] = None
        q.append(n)
    while q:
        n = q.popleft()
        order.append(n)
        for i in out.get(n, ()):
            d = edges[i][1]
            if d not in parent:
                parent[d] = (n, i)
                q.append(d)
    return parent, order, out


def path_to(parent, node):
    p = []
    while parent[node] is not None:
        pred, i = parent[node]
        p.append(i)
        node = pred
    p.reverse()
    return p
