"""C09 - overlap-add is the windowed hop-shifted sum and inverts blocking; the stft wrapper.

M1  TLC: spec/dsp/Ola.tla on the OlaC09 grid (shift-add machine == windowed hop-shifted sum, both gain
    computations agree, partial sums in mem, COLA inversion of blocking) and spec/dsp/Stft.tla on the
    StftC09 grid (keyword-layer merge, validation, window -> before -> transform -> func -> inverse ->
    after with None skipped, only ola_ options reach the overlap-add, identity reconstruction).
M2  spec -> code: every state of both runs is compared with the real overlap_add.list / stft wrapper
    driven with the case TLC dumped (blocks / signals of LinForm symbols, windows of Fractions, every
    window / container / calling route); outputs compared with the `out` / `res` / `fseen` / `olaArgs`
    TLC exported.
M3  code -> spec: seeded random larger cases (m <= 30, size <= 16; wrapper sizes <= 8) recorded and judged
    by TLC (spec/trace/OlaTrace.tla, StftTrace.tla, which use the spec modules' definition layer).
"""
import itertools
import json
import os
from fractions import Fraction
from math import gcd

import common
import tlaval
import tlc
import tracecheck
from exact import LinForm, rat, lin_vec, vec_to_lin, is_scalar

TOL = 1e-9


# ------------------------------------------------------------------------------------------------
# values

def frac_of(p):
    return Fraction(p[0], p[1])


def form_of(v):
    """spec linear form (sequence of <<n, d>>) -> LinForm"""
    return vec_to_lin(v)


def seq(v):
    """TLA+ sequence as parsed (tuple; the empty function prints as <<>>) -> list"""
    return list(v) if v else []


def obs_vec(x, ns):
    """observed sample -> spec encoding (list of [n, d]) or None when it is not an exact linear form"""
    if isinstance(x, LinForm):
        try:
            return x.vec(ns)
        except ValueError:
            return None
    if is_scalar(x) and x == 0:
        return [[0, 1]] * ns
    return None


def same_form(x, exp, ns, tol):
    """observed sample vs the vector TLC exported; tol: only for the code path that leaves exact arithmetic"""
    if isinstance(x, LinForm):
        c = x.c
    elif is_scalar(x) and x == 0:
        c = {}
    else:
        return False
    if any(k < 1 or k > ns for k in c):
        return False
    for i in range(1, ns + 1):
        e = frac_of(exp[i - 1])
        o = c.get(i, Fraction(0))
        if tol:
            if abs(o - e) > Fraction(TOL) * (1 + abs(e)):
                return False
        elif o != e:
            return False
    return True


def same_seq(obs, exp, ns, tol):
    return len(obs) == len(exp) and all(same_form(o, e, ns, tol) for o, e in zip(obs, exp))


def same_blocks(obs, exp, ns, tol=False):
    return len(obs) == len(exp) and all(same_seq(o, seq(e), ns, tol) for o, e in zip(obs, exp))


def show(xs):
    return [repr(x) for x in xs]


# ------------------------------------------------------------------------------------------------
# overlap_add.list

WND_ROUTES = ("list", "tuple", "callable", "generator", "stream")
BLK_ROUTES = ("lists", "gen-tuples", "stream", "iters")
SIG_ROUTES = ("blocks()", "Stream.blocks")


def float_gain_path(case):
    """Where the code itself leaves exact arithmetic on exact inputs: normalisation without a window computes
    1 / ceil(size / hop) as a float; normalisation with a window sums the hop-strided |w| over
    Stream(wnd).blocks(hop), whose last block is padded with the float 0.0 when hop does not divide size."""
    hop = case["hop"] or case["size"]
    return bool(case["norm"] and (not seq(case["w"]) or case["size"] % hop))


def run_ola(al, case, wroute, broute):
    """Observe the real overlap_add.list on a spec case: (err, [samples])."""
    size, hop = case["size"], case["hop"]
    w = [frac_of(p) for p in seq(case["w"])]
    kw = {}
    if case["sizeGiven"]:
        kw["size"] = size
    if hop:
        kw["hop"] = hop
    if w:
        if wroute == "list":
            kw["wnd"] = list(w)
        elif wroute == "tuple":
            kw["wnd"] = tuple(w)
        elif wroute == "callable":
            kw["wnd"] = lambda sz: list(w) if sz == len(w) else [Fraction(99)] * sz
        elif wroute == "generator":
            kw["wnd"] = (x for x in w)
        elif wroute == "stream":
            kw["wnd"] = al.Stream(list(w))
    elif wroute in ("list", "tuple"):
        kw["wnd"] = None
    if not case["norm"]:
        kw["normalize"] = False
    elif wroute in ("list", "callable"):
        kw["normalize"] = True
    if case["src"] == "blocks":
        data = [[form_of(v) for v in seq(b)] for b in seq(case["data"])]
        if broute == "lists":
            blks = data
        elif broute == "gen-tuples":
            blks = (tuple(b) for b in data)
        elif broute == "stream":
            blks = al.Stream(data)
        elif broute == "iters":
            if not case["sizeGiven"]:
                blks = iter(data)            # size detection needs len() of the first block
            else:
                blks = (iter(b) for b in data)
        else:
            raise ValueError(broute)
    else:
        x = [form_of(v) for v in seq(case["data"])]
        bk = {"size": size}
        if hop:
            bk["hop"] = hop
        if broute == "blocks()":
            blks = al.blocks(iter(x), **bk)
        else:
            blks = al.Stream(x).blocks(**bk)
    try:
        return "none", list(al.overlap_add.list(blks, **kw))
    except Exception as ex:                                     # noqa: every exception is an observation
        return "%s: %s" % (type(ex).__name__, str(ex)[:80]), []


def ola_shape(case, nblocks):
    if not case["sizeGiven"] and nblocks == 0:
        return "no-blocks-size-detect"
    s = "win" if seq(case["w"]) else "nowin"
    s += "-norm" if case["norm"] else "-raw"
    if not case["sizeGiven"]:
        s += "-size-detect"
    return s


def case_brief(case):
    return {"src": case["src"], "size": case["size"], "hop": case["hop"] or None,
            "w": [str(frac_of(p)) for p in seq(case["w"])] or None, "normalize": case["norm"],
            "size_given": case["sizeGiven"],
            "data": ([show([form_of(v) for v in seq(b)]) for b in seq(case["data"])] if case["src"] == "blocks"
                     else show([form_of(v) for v in seq(case["data"])]))}


def m2_ola(ctx, al, cfg):
    d = tlc.scratch_dir("c09ola")
    dump = os.path.join(d, "states")
    r = tlc.require_ok(tlc.run("OlaC09", cfg, dump=dump), "OlaC09",
                       need_actions=("EmptyUnknown", "Resolve", "AddBlock", "Flush"))
    ctx.add_tlc(r, "Ola shift-add machine == windowed hop-shifted sum; COLA inversion")
    groups = {}
    nstates = 0
    for st in tlaval.read_dump(dump + ".dump"):
        nstates += 1
        key = json.dumps(st["case"], sort_keys=True, default=list)
        groups.setdefault(key, []).append(st)
    if nstates != r.distinct:
        raise tlc.MachineryError("dump has %d states, TLC reported %d" % (nstates, r.distinct))
    nruns = ncola = 0
    for gi, key in enumerate(sorted(groups)):
        states = groups[key]
        final = [s for s in states if s["pc"] == "done"]
        if len(final) != 1:
            raise tlc.MachineryError("Ola case with %d final states" % len(final))
        fin = final[0]
        case = fin["case"]
        ns = case["ns"]
        exp = seq(fin["out"])
        m = fin["aux"]["m"]
        hop = case["hop"] or case["size"]
        if case["src"] == "sig" and fin["aux"]["cola"] and m > 0:
            ncola += 1
        tol = float_gain_path(case)
        broutes = BLK_ROUTES if case["src"] == "blocks" else SIG_ROUTES
        wroutes = WND_ROUTES if seq(case["w"]) else ("list", "omitted")
        # every route on a rotating subset of the cases, two routes on the others
        combos = list(itertools.product(wroutes, broutes))
        if gi % 4:
            combos = [combos[gi % len(combos)], combos[(gi * 7 + 3) % len(combos)]]
        for wroute, broute in combos:
            err, out = run_ola(al, case, wroute, broute)
            nruns += 1
            ctx.count(1, nontrivial_key=key if (m >= 2 and hop < case["size"]) else None)
            if nruns % 1501 == 0:
                ctx.sample({"overlap_add.list": case_brief(case), "observed": show(out)})
            clause = None
            if err != "none":
                clause = "exception"
            elif len(out) != len(exp):
                clause = "length"
            elif not same_seq(out, exp, ns, tol):
                clause = "value"
            if clause:
                ctx.violation("C09:ola:%s:%s" % (clause, ola_shape(case, m)),
                              {"call": "overlap_add.list", "case": case_brief(case), "window_route": wroute,
                               "blocks_route": broute, "error": err, "expected": show(map(form_of, exp)),
                               "observed": show(out)})
                continue
            # the intermediate states are prefixes of the same run (nb blocks consumed -> nb*hop samples)
            for s in states:
                if s["pc"] == "run" and not same_seq(out[:len(s["out"])], seq(s["out"]), ns, tol):
                    raise tlc.MachineryError("Ola: spec state is not a prefix of its own final state")
    ctx.traces += nstates
    if ncola == 0:
        raise tlc.MachineryError("Ola: no case satisfied the COLA hypothesis (vacuous inversion theorem)")
    ctx.log("M2 ola: %d spec states (%d cases, %d of them COLA signal cases) compared with %d real runs"
            % (nstates, len(groups), ncola, nruns))


# ------------------------------------------------------------------------------------------------
# stft wrapper

def wnd_list(kind, s):
    if kind == "none":
        return None
    if kind == "ones":
        return [Fraction(1)] * s
    if kind == "ramp":
        return [Fraction(j) for j in range(1, s + 1)]
    if kind == "neg":
        return [Fraction(-j if j % 2 else j) for j in range(1, s + 1)]
    if kind == "zero":
        return [Fraction(0)] * s
    if kind == "recip":
        return [Fraction(1, j + 1) for j in range(1, s + 1)]
    if kind == "tri":
        return [Fraction(min(2 * j - 1, 2 * (s - j) + 1), s) for j in range(1, s + 1)]
    if kind == "half":
        return [Fraction(1, 2)] * s
    raise ValueError(kind)


def st_rot(b, size=None):
    b = list(b)
    return [b[(j + 1) % len(b)] for j in range(len(b))]


def st_rev(b, size=None):
    return list(reversed(list(b)))


def st_ramp(b, size=None):
    return [(j + 1) * x for j, x in enumerate(b)]


def st_tsz(b, size):
    return [(j + 1 + size) * x for j, x in enumerate(b)]


def st_isz(b, size):
    b = list(b)
    return [size * b[(j + 1) % len(b)] for j in range(len(b))]


STAGES = {"rot": st_rot, "rev": st_rev, "ramp": st_ramp, "tsz": st_tsz, "isz": st_isz, "id": lambda b: b}


def kind_of(obj, winreg):
    """the window object the stub received -> the kind it was built from (options are passed on untouched)"""
    if obj is None:
        return "none"
    ent = winreg.get(id(obj))
    return ent[0] if ent is not None and ent[1] is obj else "unknown"


def layer_dict(v):
    return dict(v) if v else {}


def py_kwargs(al, layer, size_hint, variant, stubrec, winreg):
    """A spec keyword layer -> the Python keyword arguments (winreg: id(window object) -> (kind, object))."""
    kw = {}
    for name, v in layer.items():
        if name in ("size", "hop", "zzz", "ola_lag", "ola_normalize"):
            kw[name] = v
        elif name in ("wnd", "ola_wnd"):
            call = (lambda kind: (lambda sz: wnd_list(kind, sz)))(v)
            if variant % 6 == 4:
                # a window function that keeps its results (functools.lru_cache style) and hands out the SAME list
                # object every time: nobody may change a window it was given
                # (one table for the analysis and the synthesis window: the same kind and size is the same object)
                call = (lambda kind: (lambda sz: winreg.setdefault(("memo", kind, sz), wnd_list(kind, sz))))(v)
            if v == "none":
                kw[name] = None
            elif variant % 3 == 1 or size_hint is None:
                kw[name] = call                                                       # callable window
            elif variant % 3 == 2:
                kw[name] = iter(wnd_list(v, size_hint))                               # one-shot iterable
            else:
                kw[name] = wnd_list(v, size_hint)
            if kw[name] is not None:
                winreg[id(kw[name])] = (v, kw[name])
        elif name in ("before", "after"):
            kw[name] = None if v == "None" else (lambda f: (lambda b: f(b)))(STAGES[v])
        elif name in ("transform", "inverse_transform"):
            kw[name] = None if v == "None" else STAGES[v]
        elif name == "ola":
            if v == "None":
                kw[name] = None
            elif v == "list":
                kw[name] = al.overlap_add.list
            else:
                def stub(blks, **kws):
                    stubrec.append(dict(kws))
                    for b in blks:
                        yield list(b)
                kw[name] = stub
        else:
            raise tlc.MachineryError("unknown parameter %s" % name)
    return kw


def run_stft(al, case, variant=0):
    """Observe the real wrapper: dict(err, res, fseen, ola)."""
    a, b, c = layer_dict(case["a"]), layer_dict(case["b"]), layer_dict(case["c"])
    merged = dict(a)
    merged.update(b)
    merged.update(c)
    size_hint = merged.get("size")        # a window list must have the length of the size finally in force
    stubrec, fseen, winreg = [], [], {}
    fn = STAGES[case["func"]]

    def user(blk):
        fseen.append(list(blk))           # the block object is reused by the wrapper: copy on receipt
        return fn(blk)

    n = case["len"]
    sig = [LinForm.sym(i) for i in range(1, n + 1)]
    if variant % 2:
        sig = iter(sig)
    try:
        ka = py_kwargs(al, a, size_hint, variant, stubrec, winreg)
        kb = py_kwargs(al, b, size_hint, variant, stubrec, winreg)
        kc = py_kwargs(al, c, size_hint, variant, stubrec, winreg)
        if case["style"] == "direct":
            proc = al.stft(user, **ka)
        elif case["style"] == "decorator":
            proc = al.stft(**ka)(user)
        else:
            proc = al.stft(**ka)(**kb)(user)
        if variant % 2 == 1 and isinstance(size_hint, int) and size_hint > 0:
            # a processor is a value: an earlier call (here with another analysis window of the same size and its
            # own overlap-add) must leave no trace in the call that is judged
            try:
                warm = dict(kc)
                warm.update(wnd=lambda size: [7] * size, ola=lambda blks, **kws: (list(b) for b in blks))
                for _ in proc([LinForm.sym(i) for i in range(1, size_hint + 2)], **warm):
                    pass
            except Exception:                                   # noqa: the judged call below is what counts
                pass
            del fseen[:]
            del stubrec[:]
        result = proc(sig, **kc)
        ola = merged.get("ola")
        if ola == "list":
            res = list(result)
        else:
            res = [list(blk) for blk in result]
        err = "none"
    except Exception as ex:                                     # noqa
        err, res = type(ex).__name__, []
        errtext = str(ex)[:100]
    else:
        errtext = ""
    seen = None
    if stubrec:
        seen = dict(stubrec[0])
        if seen.get("hop", 0) is None:
            seen["hop"] = 0
        for k in list(seen):
            v = seen[k]
            if k in ("wnd", "ola_wnd") or id(v) in winreg:
                seen[k] = kind_of(v, winreg)
            elif not isinstance(v, (bool, int, str)):
                seen[k] = repr(v)
    return {"err": err, "errtext": errtext, "res": res, "fseen": fseen, "ola": seen, "ncalls": len(stubrec)}


def cfg_brief(case):
    return {"style": case["style"], "a": layer_dict(case["a"]), "b": layer_dict(case["b"]),
            "c": layer_dict(case["c"]), "func": case["func"], "len": case["len"]}


def stft_float_path(kws):
    """same two float paths of overlap_add.list, reached through the wrapper"""
    if kws.get("ola") != "list" or not kws.get("ola_normalize", True):
        return False
    return kws.get("ola_wnd", "none") == "none" or kws["size"] % kws.get("hop", kws["size"]) != 0


def judge_stft(ctx, case, fin, obs, variant):
    """Compare one observation with the final spec state; returns the violated clause or None."""
    ns = case["len"]
    kws = layer_dict(fin["kws"])
    if fin["err"] != "none":
        if obs["err"] == "none":
            allowed = {"size", "hop"} | {n[4:] for n in kws if n.startswith("ola_")}
            bad = [k for k in (obs["ola"] or {}) if k not in allowed]
            if bad:
                return "ola-options"
            ctx.extra["notes"] = ctx.extra.get("notes", 0) + 1
            ctx.log("note (not demanded by C09): configuration %r accepted, the model rejects it with %s"
                    % (cfg_brief(case), fin["err"]))
        elif obs["err"] != fin["err"]:
            ctx.extra["notes"] = ctx.extra.get("notes", 0) + 1
            ctx.log("note (not demanded by C09): %r raised %s, the model says %s"
                    % (cfg_brief(case), obs["err"], fin["err"]))
        return None
    if obs["err"] != "none":
        return "exception"
    if kws["ola"] == "stub":
        # Stft.tla OlaArgsOK against the arguments TLC exported: only those names, each as given, nothing given
        # withheld (a hop that was never given - None, encoded 0 - may be left to the strategy's default)
        exp = layer_dict(fin["olaArgs"])
        got = obs["ola"] or {}
        hop_default = lambda k: k == "hop" and exp.get("hop") in (None, 0) and got.get("hop") == exp.get("size")
        if obs["ncalls"] != 1 or any(k not in exp or (got[k] != exp[k] and not hop_default(k)) for k in got) \
                or any(k not in got and not (k == "hop" and exp[k] in (None, 0)) for k in exp):
            return "ola-options"
    if not same_blocks(obs["fseen"], seq(fin["fseen"]), ns):
        return "window-before-func"
    if kws["ola"] == "list":
        if len(obs["res"]) != len(seq(fin["res"])):
            return "length"
        if not same_seq(obs["res"], seq(fin["res"]), ns, stft_float_path(kws)):
            return "value"
    elif not same_blocks(obs["res"], seq(fin["res"]), ns):
        return "value"
    return None


def m2_stft(ctx, al, cfg):
    d = tlc.scratch_dir("c09stft")
    dump = os.path.join(d, "states")
    r = tlc.require_ok(tlc.run("StftC09", cfg, dump=dump), "StftC09",
                       need_actions=("MergeLayer", "Merged", "Validate", "ProcBlock", "Finish"))
    ctx.add_tlc(r, "Stft wrapper: layer merge, validation, stage pipeline, ola dispatch, reconstruction")
    groups = {}
    nstates = 0
    for st in tlaval.read_dump(dump + ".dump"):
        nstates += 1
        key = json.dumps(st["case"], sort_keys=True, default=list)
        groups.setdefault(key, []).append(st)
    if nstates != r.distinct:
        raise tlc.MachineryError("dump has %d states, TLC reported %d" % (nstates, r.distinct))
    nrecon = nerr = nruns = 0
    for gi, key in enumerate(sorted(groups)):
        states = groups[key]
        final = [s for s in states if s["pc"] == "done"]
        if len(final) != 1:
            raise tlc.MachineryError("Stft configuration with %d final states" % len(final))
        fin = final[0]
        case = fin["case"]
        kws = layer_dict(fin["kws"])
        if fin["err"] != "none":
            nerr += 1
        elif fin["aux"]["cola"] and fin["aux"]["ident"] and kws["ola"] == "list" and fin["aux"]["nblocks"] > 0:
            nrecon += 1
        for variant in ((gi, gi + 1, gi + 2) if gi % 5 == 0 else (gi,)):
            obs = run_stft(al, case, variant)
            nruns += 1
            ctx.count(1, nontrivial_key=key if (fin["err"] == "none" and fin["aux"]["nblocks"] >= 2) else None)
            if nruns % 997 == 0:
                ctx.sample({"stft": cfg_brief(case), "observed": show(obs["res"])[:8], "error": obs["err"]})
            clause = judge_stft(ctx, case, fin, obs, variant)
            if clause:
                ctx.violation("C09:stft:%s" % clause,
                              {"call": "stft wrapper", "config": cfg_brief(case), "variant": variant % 6,
                               "error": obs["err"], "error_text": obs["errtext"],
                               "expected_error": fin["err"],
                               "expected_ola_kwargs": layer_dict(fin["olaArgs"]), "observed_ola_kwargs": obs["ola"],
                               "expected": repr(fin["res"])[:400], "observed": show(obs["res"])[:12],
                               "func_received": [show(b) for b in obs["fseen"]][:4]})
    ctx.traces += nstates
    if nrecon == 0 or nerr == 0:
        raise tlc.MachineryError("Stft grid is vacuous: %d reconstruction cases, %d error cases" % (nrecon, nerr))
    ctx.log("M2 stft: %d spec states (%d configurations: %d rejected ones, %d identity/COLA reconstructions) "
            "compared with %d real calls" % (nstates, len(groups), nerr, nrecon, nruns))


# ------------------------------------------------------------------------------------------------
# M3

def enc_form(f, ns):
    return f.vec(ns)


def rand_form(rng, ns):
    c = {}
    for i in range(1, ns + 1):
        if rng.random() < 0.6:
            c[i] = Fraction(rng.choice([-3, -2, -1, 1, 1, 2, 3]))
    return LinForm(c)


def rand_window(rng, size):
    kind = rng.random()
    if kind < 0.15:
        return []
    if kind < 0.25:
        return [Fraction(0)] * size
    if kind < 0.35:
        return wnd_list("tri", size)
    dens = [1, 1, 2, 2, 3, 4]
    return [Fraction(rng.randint(-3, 3), rng.choice(dens)) for _ in range(size)]


def lcm(a, b):
    return a * b // gcd(a, b)


def ola_fits(w, size, hop, norm):
    """Magnitude screen from the inputs alone: denominators / numerators TLC will meet stay below 2^30."""
    if not w:
        return True
    den = 1
    for x in w:
        den = lcm(den, x.denominator)
    tot = sum(abs(x.numerator) * (den // x.denominator) for x in w)     # <= gain * den
    worst = max(1, tot) * den * 3 * (size // hop + 1) * 4
    return worst * max(1, tot) * den < (1 << 30)


def m3_ola(ctx, al, count, maxm, maxsize):
    rng = ctx.rng
    recs, meta = [], []
    tries = 0
    while len(recs) < count and tries < 20 * count:
        tries += 1
        size = rng.randint(1, maxsize)
        hop = rng.randint(1, size)
        if rng.random() < 0.3:
            hop = rng.choice([h for h in range(1, size + 1) if size % h == 0])
        w = rand_window(rng, size)
        norm = rng.random() < 0.6
        if norm and not w:
            c = -(-size // hop)
            if c & (c - 1):
                continue          # 1/ceil(size/hop) is not a dyadic float: only M2 (with the tolerance rule) judges it
        if norm and w and size % hop:
            norm = False          # the gain is summed with a float 0.0 pad: judged in M2 with the tolerance rule
        if not ola_fits(w, size, hop, norm):
            continue
        ns = 4
        src = "sig" if rng.random() < 0.4 else "blocks"
        size_given = rng.random() < 0.8
        hop_given = (hop != size) or rng.random() < 0.5
        if src == "blocks":
            m = rng.randint(0, maxm)
            if not size_given and m == 0:
                hop_given, hop = False, size
            data = [[rand_form(rng, ns) for _ in range(size)] for _ in range(m)]
            enc = [[enc_form(f, ns) for f in b] for b in data]
        else:
            size_given = True
            n = rng.randint(0, maxm * hop)
            data = [rand_form(rng, ns) for _ in range(n)]
            enc = [enc_form(f, ns) for f in data]
        case = {"src": src, "data": enc, "ns": ns, "size": size, "hop": hop if hop_given else 0,
                "w": [rat(x) for x in w], "norm": norm, "sizeGiven": size_given}
        # the observation routine takes the case in its parsed-dump form
        wroute = rng.choice(WND_ROUTES if w else ("list", "omitted"))
        broute = rng.choice(BLK_ROUTES if src == "blocks" else SIG_ROUTES)
        err, out = run_ola(al, case, wroute, broute)
        vecs = [obs_vec(o, ns) for o in out]
        nb = len(data) if src == "blocks" else None
        m_ = {"call": "overlap_add.list", "src": src, "size": size, "hop": case["hop"] or None,
              "w": [str(x) for x in w] or None, "normalize": norm, "size_given": size_given,
              "window_route": wroute, "blocks_route": broute, "items": len(data), "error": err,
              "observed": show(out)[:8], "shape": ola_shape(case, nb if nb is not None else 1)}
        ctx.count(1, nontrivial_key=("m3ola", len(recs)) if len(out) > size else None)
        if any(v is None for v in vecs):
            ctx.violation("C09:ola:value:%s" % m_["shape"], dict(m_, why="output is not an exact linear form"))
            continue
        recs.append({"case": case, "err": "none" if err == "none" else err.split(":")[0], "out": vecs})
        meta.append(m_)
    bad = tracecheck.run_records(ctx, "OlaTrace", {"Cases": "{}"}, recs, what="C09 recorded overlap-add runs",
                                 chunk=250)
    ctx.traces += len(recs) - len(bad)
    ctx.log("M3 ola: %d recorded runs judged by TLC, %d rejected" % (len(recs), len(bad)))
    if meta:
        ctx.sample({"recorded": meta[0]})
    for i, info in sorted(bad.items()):
        m_ = meta[i - 1]
        clause = "value" if info[0] == "inversion" else info[0]
        ctx.violation("C09:ola:%s:%s" % (clause, m_["shape"]), dict(m_, clause=info[0]))


STAGE_POOL = {"before": ("None", "rot", "rev"), "transform": ("None", "tsz"),
              "inverse_transform": ("None", "isz"), "after": ("None", "ramp", "rot")}
WKINDS = ("none", "ones", "ramp", "neg", "zero", "recip", "tri", "half")


def rand_stft_case(rng, maxsize, maxlen):
    size = rng.randint(1, maxsize)
    e = {"size": size}
    if rng.random() < 0.7:
        e["hop"] = rng.randint(1, size) if rng.random() < 0.93 else size + 1
    if rng.random() < 0.7:
        e["wnd"] = rng.choice(WKINDS)
    ident = rng.random() < 0.35
    for k, pool in STAGE_POOL.items():
        e[k] = "None" if ident else rng.choice(pool)
    e["ola"] = rng.choice(["None", "stub", "list", "list"])
    if rng.random() < 0.5:
        e["ola_wnd"] = rng.choice(WKINDS)
    if rng.random() < 0.5:
        e["ola_normalize"] = rng.random() < 0.5
    if e["ola"] == "stub" and rng.random() < 0.3:
        e["ola_lag"] = 7
    if rng.random() < 0.04:
        e["zzz"] = 7
    if rng.random() < 0.04:
        del e["size"]
    # no-window normalisation computes 1/ceil(size/hop) in floats: keep it dyadic for the exact judge
    if e["ola"] == "list" and e.get("ola_wnd", "none") == "none" and e.get("ola_normalize", True) and "size" in e:
        c = -(-size // e.get("hop", size)) if e.get("hop", size) <= size else 1
        if c & (c - 1):
            e["ola_normalize"] = False
    if e["ola"] == "list" and e.get("ola_normalize", True) and "size" in e and size % e.get("hop", size):
        e["ola_normalize"] = False           # float 0.0 pad in the gain sum: M2 judges it with the tolerance rule
    names = list(e)
    style = rng.choice(["direct", "decorator", "partial"])
    layers = [{}, {}, {}]
    for nme in names:
        pos = rng.choice([0, 0, 1, 2]) if style == "partial" else rng.choice([0, 0, 2])
        layers[pos][nme] = e[nme]
        if pos > 0 and rng.random() < 0.4:                     # an earlier value that must lose
            layers[rng.randrange(pos) if style == "partial" else 0][nme] = other_value(nme, e[nme])
    return {"style": style, "a": layers[0], "b": layers[1], "c": layers[2],
            "func": "id" if ident else rng.choice(["id", "rev"]), "len": rng.randint(0, maxlen)}


def other_value(name, v):
    if name == "size":
        return v + 1
    if name == "hop":
        return 2 if v == 1 else 1
    if name in ("wnd", "ola_wnd"):
        return "ones" if v == "neg" else "neg"
    if name in STAGE_POOL:
        return "rot" if v == "None" else "None"
    if name == "ola":
        return "None" if v == "stub" else "stub"
    if name == "ola_normalize":
        return not v
    return v


def m3_stft(ctx, al, count, maxsize, maxlen):
    rng = ctx.rng
    recs, meta = [], []
    for t in range(count):
        case = rand_stft_case(rng, maxsize, maxlen)
        obs = run_stft(al, case, variant=t)
        ns = case["len"]
        merged = dict(case["a"])
        merged.update(case["b"])
        merged.update(case["c"])
        as_list = merged.get("ola") == "list"
        ok = True
        if as_list:
            res = [obs_vec(x, ns) for x in obs["res"]]
            ok = all(v is not None for v in res)
        else:
            res = [[obs_vec(x, ns) for x in b] for b in obs["res"]]
            ok = all(v is not None for b in res for v in b)
        fseen = [[obs_vec(x, ns) for x in b] for b in obs["fseen"]]
        ok = ok and all(v is not None for b in fseen for v in b)
        m_ = {"call": "stft wrapper", "config": case, "variant": t % 6, "error": obs["err"],
              "error_text": obs["errtext"], "observed": show(obs["res"])[:10], "observed_ola_kwargs": obs["ola"]}
        ctx.count(1, nontrivial_key=("m3stft", t) if (obs["err"] == "none" and len(obs["fseen"]) >= 2) else None)
        if not ok:
            ctx.violation("C09:stft:value", dict(m_, why="result is not an exact linear form"))
            continue
        recs.append({"case": case, "err": obs["err"], "res": res, "fseen": fseen,
                     "ola": obs["ola"] if obs["ola"] is not None else {}})
        meta.append(m_)
    bad = tracecheck.run_records(ctx, "StftTrace", {"Cases": "{}"}, recs, what="C09 recorded stft-wrapper calls",
                                 chunk=300)
    nreal = 0
    for i, info in sorted(bad.items()):
        clause = info[0]
        if clause in ("error-class", "accepted"):
            ctx.extra["notes"] = ctx.extra.get("notes", 0) + 1
            ctx.log("note (not demanded by C09): %s for %r -> %s" % (clause, meta[i - 1]["config"],
                                                                    meta[i - 1]["error"]))
            continue
        nreal += 1
        if clause == "reconstruction":
            clause = "value"
        ctx.violation("C09:stft:%s" % clause, dict(meta[i - 1], clause=info[0]))
    ctx.traces += len(recs) - nreal
    ctx.log("M3 stft: %d recorded calls judged by TLC, %d rejected" % (len(recs), nreal))
    if meta:
        ctx.sample({"recorded": meta[0]})


def check(ctx):
    al = common.import_audiolazy()
    ctx.rule = ("M2: every case of the Ola grid through window routes x block-container routes and every "
                "configuration of the Stft grid through the real wrapper; non-trivial = at least 2 overlapping "
                "blocks (ola) / a configuration that is accepted and processes >= 2 blocks (stft); "
                "M3: random larger cases judged by TLC")
    ctx.assumptions = [
        "hop <= size (the statement's quantifier); windows have exactly `size` entries",
        "samples are linear forms with Fraction coefficients and windows are lists of Fractions (exact); "
        "the code leaves exact arithmetic in two places: normalisation without a window computes 1/ceil(size/hop) "
        "as a float, and the normalisation gain of a window is summed over blocks padded with the float 0.0 when "
        "hop does not divide size; those paths are compared with 1e-9*(1+|exact|) in M2 and are restricted in M3 "
        "to dyadic gains / hops dividing the size (TLC judges exact equality)",
        "an all-zero window has no reciprocal gain: g = 1 (the output is zero either way)",
        "no size and no block: the output is empty when the hop is not given either (m*h+size-h = 0 for h = size); "
        "with a hop given the length is not determined and the case is out of scope",
        "numpy is absent: every stft stage and the overlap-add strategy are named explicitly (None, a pure-Python "
        "linear stage, overlap_add.list or a recording stub); overlap_add.numpy is not exercised",
        "which exception class rejects a bad stft configuration is modelled but only reported as a note",
        "fully covered sample: every window position that can lie over it belongs to a block (= covered by size/hop "
        "blocks when hop divides size)"]
    if ctx.thorough:
        m2_ola(ctx, al, "OlaC09_thorough.cfg")
        m2_stft(ctx, al, "StftC09_thorough.cfg")
        m3_ola(ctx, al, 1500, 30, 16)
        m3_stft(ctx, al, 1500, 8, 30)
    else:
        m2_ola(ctx, al, "OlaC09_quick.cfg")
        m2_stft(ctx, al, "StftC09_quick.cfg")
        m3_ola(ctx, al, 250, 30, 16)
        m3_stft(ctx, al, 300, 8, 24)
    import c09_partials
    c09_partials.check_partials(ctx, al)       # partial / decorator style: partials are values (StftPartial.tla)
    ctx.exhaustive = True
