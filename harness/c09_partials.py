"""C09, calling styles: histories of derivations from STFT partials (spec/dsp/StftPartial.tla).

Every history TLC enumerated is replayed on real stft partials; after the last derivation EVERY partial made so
far is observed (a processor is derived from it and run over a recording overlap-add stub) and its effective
options - size, hop, analysis window, ola_ options - are compared with the dictionary TLC exported for it.
"""
import os

import tlaval
import tlc

SIG = [1, 2, 3, 4, 5, 6, 7, 8]
RAMP = {4: [1, 2, 3, 4], 3: [1, 2, 3]}


def layer_kwargs(layer):
    k, v = layer["k"], layer["v"]
    if k in ("hop", "size"):
        return {k: int(v)}
    if k == "wnd":
        return {"wnd": lambda size: list(range(1, size + 1))}
    if k == "ola_normalize":
        return {"ola_normalize": False}
    raise tlc.MachineryError("unknown layer %r" % (layer,))


def observe(al, partial):
    """Effective options of a partial, seen through a processor derived from it."""
    seen = {}

    def stub(blocks, **kw):
        seen["kw"] = kw
        seen["first"] = [list(b) for b in blocks][:1]
        return iter(())
    try:
        proc = partial(lambda blk: list(blk))
        list(proc(SIG, ola=stub))
    except Exception as ex:
        return {"error": type(ex).__name__}
    kw = seen.get("kw", {})
    first = seen.get("first") or [[]]
    size = kw.get("size")
    wnd = "unset"
    if size and first[0]:
        plain = SIG[:size]
        if first[0] == [a * b for a, b in zip(plain, RAMP.get(size, []))]:
            wnd = "ramp"
        elif first[0] != plain:
            wnd = "other"
    # (an ungiven hop may reach the overlap-add as None or as its documented default, the size)
    return {"size": str(kw.get("size")),
            "hop": "unset" if kw.get("hop") is None else str(kw.get("hop")), "hop_is_size": kw.get("hop") == kw.get("size"),
            "wnd": wnd, "ola_normalize": "False" if kw.get("normalize") is False else
            ("unset" if "normalize" not in kw else "other")}


def expected(d):
    if int(d["hop"]) > int(d["size"]) if d["hop"] != "unset" else False:
        return {"error": "ValueError"}
    return {"size": d["size"], "hop": d["hop"], "wnd": d["wnd"], "ola_normalize": d["ola_normalize"]}


def check_partials(ctx, al):
    sens = tlc.run("StftPartialC09", "StftPartialC09_sens.cfg", coverage=False)
    if sens.violated != "NoLeak":
        raise tlc.MachineryError("StftPartial: the shared-defaults variant must violate NoLeak (got %s)" % sens.violated)
    d = tlc.scratch_dir("c09p")
    dump = os.path.join(d, "st")
    r = tlc.require_ok(tlc.run("StftPartialC09", "StftPartialC09.cfg", dump=dump), "StftPartial")
    ctx.add_tlc(r, "StftPartial: derivation histories, partials are values (NoLeak, Frozen)")
    layers = None
    n = bad = 0
    for st in tlaval.read_dump(dump + ".dump"):
        hist = st["hist"]
        if not hist:
            continue
        n += 1
        if layers is None:
            layers = [{"k": "hop", "v": "2"}, {"k": "hop", "v": "1"}, {"k": "wnd", "v": "ramp"},
                      {"k": "ola_normalize", "v": "False"}, {"k": "size", "v": "3"}]
        parts = [al.stft(size=4, transform=None, inverse_transform=None, before=None, after=None)]
        for parent, li in hist:
            parts.append(parts[parent - 1](**layer_kwargs(layers[li - 1])))
        ctx.count(1, nontrivial_key=("partials", n) if len(hist) >= 2 else None)
        for i, p in enumerate(parts):
            got = observe(al, p)
            want = expected(st["store"][i])
            hop_is_size = got.pop("hop_is_size", False) if isinstance(got, dict) else False
            if want.get("hop") == "unset" and hop_is_size:
                got["hop"] = "unset"              # the documented default, made explicit by the wrapper
            if got != want:
                bad += 1
                ctx.violation("C09:stft:partial-not-a-value",
                              {"derivations": [[pa, layers[li - 1]] for pa, li in hist], "partial": i + 1,
                               "expected_options": want, "observed_options": got})
                break
    ctx.traces += n
    ctx.log("stft partials: %d derivation histories replayed, %d with a partial whose options changed" % (n, bad))
