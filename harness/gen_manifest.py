"""Regenerate /verif/MANIFEST.json from the table below (kept valid at all times)."""
import json
import os

VERIF = os.path.dirname(os.path.dirname(os.path.abspath(__file__)))
BASELINE = ("cd /repo && /venv/bin/python -m pytest -ra -q -p no:cacheprovider --timeout=900 "
            "--continue-on-collection-errors")

# id -> (engine spec modules, technique, level text, level note, design ref)
CLAIMED = {
 "C01": ("spec/stream/StreamOps.tla + StreamOpsC01(Q|T).tla + Broadcast.tla + trace/StreamOpsTrace.tla",
         "TLC model checking of the expression-tree pull machine built by the operator templates against the index-wise "
         "definition + replay of every enumerated program on real Stream/list/tuple/generator operands with symbolic "
         "elements (and on int/float/complex/Fraction/bool) + TLC judgement of random deeper trees and of every "
         "(broadcast function, container kind) call",
         "All 35 operator methods x all operand-kind pairs with a Stream on at least one side x lengths 0..3 (periodic "
         "1..2) at depth 1, and depth-2 trees over an operator basis, are enumerated by TLC: the pull machine (plain, "
         "reflected and Python-mirrored comparison templates, scalar capture, stop with the shortest operand) equals "
         "out[i] = op(L[i], R[i]). Every program is run for real on opaque symbolic elements, so the comparison is term "
         "equality independent of arithmetic, and re-run on five concrete element types against the same terms "
         "interpreted with the stdlib operator module. Random trees of depth <= 5 over all operators and every "
         "function of the math/dB/MIDI family on 14 container kinds are judged by TLC (container kind returned, "
         "laziness, length, per-element agreement).",
         "At least one operand of each binary node is Stream-typed; lengths <= 3 exhaustively, <= 12 randomly; depth <= 2 "
         "exhaustively, <= 5 randomly; values of transcendental functions compared with the same libm function applied "
         "per element; concrete types only where the type implements the operator. Trusted: TLC, the Sym term builder.",
         "DESIGN.md section 4 C01"),
 "C02": ("spec/stream/Lazy.tla + LazyC02.tla + trace/LazyTrace.tla",
         "TLC model checking of the reading loop of every read-pattern class against the closed form Need(k) (no read at "
         "construction, bounded and tight read, monotone so that the bound composes along chains) + real stages of every "
         "class built over counting sources and compared with the exported bounds + TLC judgement of recorded read counts "
         "for larger parameters and chains of 2-3 stages",
         "13 read-pattern classes (sample-wise, blocks, skip/dropwhile, strided, limit, selection, takewhile, prefix, "
         "overlap-add, pairwise, batched, resample) cover 104 public stage constructors (all 35 Stream operators, "
         "Stream methods, lazy_itertools wrappers, LTI/time-varying/cascade/parallel filters, blocks, zero_pad, chunks, "
         "stft, overlap_add, analysis tools, Streamix, elementwise functions on lazy inputs, modulo_counter/TableLookup/"
         "sinusoid with stream arguments, resample). For every class x parameters x source (finite 0..7, endless) x "
         "selection pattern TLC checks pulled = min(Need(k), source length) after k outputs and 0 at construction; every "
         "real constructor of the class is then run on each case over a counting source (finite, endless with a step "
         "budget) and its counter compared after construction and after each output; random larger parameters, up to "
         "60-200 outputs, and chains of up to 3 stages are judged by TLC with Need composed along the chain.",
         "Reading less than Need(k) is never an alarm; once a stage has ended only the source length bounds its reads "
         "(limit: n); combinatoric itertools are not stream stages; a never-passing predicate on an endless source is "
         "excluded; resample with a ratio whose denominator is not a power of two may read one item early (float "
         "position). Trusted: TLC, the counting source.",
         "DESIGN.md section 4 C02 and appendix B"),
 "C03": ("spec/stream/StreamHist.tla + StreamHistC03.tla + trace/StreamHistTrace.tla",
         "TLC exhaustive enumeration of method histories on a pull-machine model of Stream/tee/StreamTeeHub checked "
         "against an immutable list model (history-as-state) + replay of every enumerated history on real Stream "
         "objects + TLC trace validation of long recorded histories",
         "The specification has the machine the code builds from itertools (tee groups with shared buffers, lazy "
         "skipper/limit/map/filter/chain nodes, in-place _data replacement, StreamTeeHub copies) and the list model "
         "the property states; TLC checks on every history up to the bound that each return value/exception agrees "
         "and that every live handle still unfolds to its list whatever was consumed through its copies. All "
         "~10^5 enumerated histories (every count token at depth 2, representative counts at depth 3, core methods at "
         "depth 4 in the thorough tier) are replayed on real objects and compared; random histories of 30-40 calls "
         "over 7 handles and sequences of up to 20 items are validated by TLC.",
         "History length <= 3 (quick) / 4 (thorough) exhaustively, 30-40 randomly; take(inf) on endless streams, "
         "never-passing filters on endless streams and exact-tie float counts are excluded; a stream handed to "
         "append/tee/thub is dead afterwards (documented). Trusted: TLC, the dump parser, the 100-line replay shim.",
         "DESIGN.md section 4 C03"),
 "C04": ("spec/dsp/Filter.tla + FilterC04(Q|T).tla + trace/FilterTrace.tla",
         "TLC exhaustive check that the generated-code register machine equals the difference equation on "
         "linear-form samples + replay of every TLC state into the real filter through every construction and "
         "memory route + TLC judgement of recorded runs of random higher-order filters",
         "The specification models the generated generator (registers, shift order, gain handling, all-zero and "
         "refusal branches) and the difference equation; TLC proves them equal on the whole coefficient grid with "
         "symbolic samples (linear forms = every number). Every reached state (filter, n, outputs) is replayed on "
         "the real ZFilter/LinearFilter built from lists, dicts and z-expressions with list/tuple/generator/callable "
         "memories, and random filters up to order 7/6 and 16-24 samples are judged by TLC.",
         "Coefficients integers or dyadic rationals (the library formats coefficients into source text); input "
         "length <= 4 exhaustively, <= 24 randomly; memories of sufficient length. Trusted: TLC, LinForm "
         "(40 lines of Fraction arithmetic), the dump parser.",
         "DESIGN.md section 4 C04"),
 "C16": ("spec/stream/Mixer.tla + trace/MixerTrace.tla",
         "TLC model checking of the count/queue/playing machine of Streamix against the closed form (T_i = sum of deltas, "
         "start = max(nearest(T_i), time added), sample = zero + items due, end = max(S_i + len_i)) over the full reachable "
         "state graph under add/next interleaving plus exhaustive small histories + transition-cover replay on real "
         "Streamix objects with symbolic items + TLC validation of recorded histories; ControlStream as a one-variable machine",
         "Every transition of the model's reachable graph (histories of any length within <= 3 simultaneously live events, "
         "six quarter-sample deltas, data lengths 0..3, keep on/off) is executed by the real code from the state the model "
         "enables it in, with exact comparison on symbolic zero and items; histories of <= 3 events are checked exhaustively "
         "against the absolute closed form (no drift); recorded histories of up to ~400 events with fractional deltas, late "
         "and rejected additions and several zero types are judged by TLC.",
         "Exact half-sample ties may start at either neighbouring sample (the statement says nearest; tie direction is "
         "diagnostics only); no add() after the mixer ended; finite data; keep fixed at construction; non-dyadic deltas only "
         "in M3. Trusted: TLC, LinForm.",
         "DESIGN.md section 4 C16"),
 "C17": ("spec/io/AudioIO.tla (PlusCal) refining spec/io/AudioObs.tla + trace/AudioObsTrace.tla + "
         "trace/AudioIOTrace.tla + harness/sched.py",
         "TLC model checking of a PlusCal model of AudioIO/AudioThread over all interleavings (safety invariants + "
         "liveness of close under weak fairness) + deterministic scheduler that forces the real lazy_io (unmodified, "
         "over shim threading and a fake PyAudio backend) along TLC-generated behaviours + TLC trace validation of "
         "randomly/PCT-scheduled real executions",
         "Every interleaving of the caller (bounded control history over play/pause/resume/stop, then close, then a "
         "play that must raise) and 2 players x 2 chunks at the grain of single shared-state accesses is explored by "
         "TLC: chunks in order exactly once, no write to a stream that is not open, all streams closed, terminate "
         "once, no thread alive after close, close always returns (liveness, weak fairness). The same module's "
         "coarse relation (pre-emption at synchronisation/backend operations) is turned into an edge cover of "
         "maximal behaviours that the real code is driven along, thread by thread, with the shared state compared "
         "after every operation; random and PCT schedules with random control histories for 1-3 players are logged "
         "and validated by TLC, and direct monitors check the bytes received per device stream. The verdict on every "
         "execution is property-level: its observable events (backend calls, thread start/end, the caller's "
         "stop/close/play) are judged by the specification AudioObs, which the PlusCal model is shown to refine "
         "(PROPERTY ObsRefined); an execution the implementation-shaped model cannot explain but AudioObs accepts is "
         "reported as MODEL-DRIFT, not as a violation.",
         "Pre-emption only at lock/event/thread/backend operations (the deterministic scheduler is the OS); default "
         "float sample format; with wait=True close is not called while a player is paused and never resumed; "
         "bounds: 2 players x <=2 chunks x 3 control calls exhaustively, 1-3 players x <=3 chunks x 5 calls randomly. "
         "Trusted: TLC, pcal, harness/sched.py.",
         "DESIGN.md section 4 C17 and appendix A"),
 "C05": ("spec/dsp/FilterAlg.tla + FilterAlgC05.tla (on Poly.tla, Filter.tla) + trace/FilterAlgTrace.tla",
         "TLC model checking of the ZFilter algebra (operational operators with the equal-denominator shortcut, shift, "
         "reciprocal-first power, substitution loops) against rational-function arithmetic compared by "
         "cross-multiplication and the LTI system at rest + replay of every expression tree / pair / triple on real "
         "ZFilter, CascadeFilter and ParallelFilter objects + TLC judgement of random deeper trees",
         "Every tree of the grid (depth <= 2 over 12 atoms, 5 operators, scalars, powers -2..3, substitution) denotes its "
         "rational function; field laws, eq/ne/hash coherence and the system identities on symbolic (linear-form) inputs "
         "of length 5 are TLC invariants; every state is replayed with Fraction and int/dyadic coefficients and outputs are "
         "compared exactly; random trees of depth 2-4 and longer runs are judged by TLC.",
         "Filters are run only with int / dyadic-float coefficients (coefficients are formatted into source text); at "
         "rest (memory None, zero 0); causal operands; no division by / negative power of / substitution of the zero "
         "filter; linearize not covered. Trusted: TLC, LinForm, Fraction.",
         "DESIGN.md section 4 C05"),
 "C06": ("spec/dsp/FilterC06.tla (on Filter.tla) + FilterC06(Q|T).tla + trace/FilterC06Trace.tla",
         "TLC model checking of a coefficient-stream-expression machine with per-use tee branches against the difference "
         "equation over element-wise coefficient sequences + replay of every enumerated state on real filters fed from "
         "counting sources + TLC-judged records of random larger runs",
         "Every subset of the coefficients (including a0) of 6 shapes of order <= 2 replaced by finite, periodic or "
         "constant streams, all pair sums / differences / products / scalings and depth-2 trees of 8 stream atoms: TLC "
         "proves the library's coefficient arithmetic plus the generated generator produce the difference equation with "
         "each stream's n-th value, that the run ends with the shortest stream or the input, and that every source is "
         "read exactly n times after n outputs whatever the number of tee branches; every state is replayed on the real "
         "code with linear-form samples and read counters compared after each output.",
         "MaxLen 4/5 in M1/M2, <= 30 in M3; integer / dyadic stream values; excluded (guards): a Stream reused without "
         "copy/thub, a0 streams containing 0, sums of filters sharing a non-trivial denominator, streams annihilated by a "
         "zero scalar, all-zero and non-causal filters; end-of-run reads only bounded by n+1. Trusted: TLC, LinForm, the "
         "counting source.",
         "DESIGN.md section 4 C06"),
 "C07": ("spec/dsp/Poly.tla + PolyC07.tla + trace/PolyTrace.tla",
         "TLC model checking of an operational transcription of Poly (__add__/__mul__/__pow__/__call__, Horner register "
         "machine with its loop invariant, composition, diff/integrate, Lagrange) against coefficient-wise definitions "
         "and the ring / homomorphism / calculus / interpolation laws + replay of every state on real Poly objects + "
         "TLC-judged recorded calls",
         "Bounded-exhaustive refinement over Laurent polynomials with supports in -2..3, 6 coefficient values, 7 "
         "evaluation points, exponents 0..4 and point sets of size 1..4 (9k states quick, 140k thorough, 11 invariants "
         "incl. NoZeroStored and scheme independence); every state replayed through 5 construction routes comparing "
         "dict(p.terms()), p(v) with both schemes, ==, !=, hash; larger random polynomials judged by TLC. Exact rational "
         "arithmetic throughout, no tolerance.",
         "Fraction/int operands; p(0) only without negative powers; p(q) with negative powers only for one-term q; "
         "integrate only without an x^-1 term; M3 <= 8 terms, powers -6..10. Trusted: TLC, Fraction.",
         "DESIGN.md section 4 C07"),
 "C08": ("spec/dsp/Blocks.tla + BlocksDef.tla + BlocksC08.tla + trace/BlocksTrace.tla (+ BlocksIdx.tla for Apalache)",
         "TLC model checking of the deque/idx machine of blocks/zero_pad against the hop-spaced-window definition + "
         "replay of every enumerated state on the real blocks / Stream.blocks / zero_pad + TLC judgement of recorded runs",
         "The operational model of blocks/zero_pad (bounded deque, idx bookkeeping, both loops, tail test) refines the "
         "property's definition for every length x size x hop of the grid (TLC); the real code agrees with every "
         "enumerated state on every pad kind and call route, including through Stream.blocks, with snapshots taken at "
         "the yield; larger random runs are judged by TLC on the same operators. A division-free inductive invariant of "
         "the index machine is additionally discharged by Apalache for arbitrary input length at sampled (size, hop) "
         "(auxiliary, never decides the verdict).",
         "n <= 20, size <= 6, hop <= 9 quick; n <= 40, size <= 10, hop <= 14 thorough; M3 n <= 300, size <= 40, hop <= 60. "
         "Blocks are copied at the yield (the deque is reused by design); items identified by object identity; "
         "hop-not-given and read timing are diagnostics only. Trusted: TLC, dump parser, item coding.",
         "DESIGN.md section 4 C08"),
 "C09": ("spec/dsp/Ola.tla + OlaDef.tla + Stft.tla (+ grids) + trace/OlaTrace.tla + StftTrace.tla",
         "TLC model checking of the shift-add machine against the windowed hop-shifted sum (with COLA inversion of "
         "blocking) and of the stft wrapper as a configuration machine + exact linear-form replay on the real "
         "overlap_add.list / stft + TLC-judged records",
         "On linear-form samples (deciding the identity for every sample value) and rational windows TLC proves within "
         "the grid that the machine equals the sum formula with length m*h+size-h, that both gain computations agree, "
         "the inversion theorem, and for the wrapper: later-layer-wins merge, stage order with None skipped, "
         "window-before-func, only ola_-prefixed options passed on, identity reconstruction. The real overlap_add.list "
         "and stft agree with every enumerated case through all window, container and calling routes; random larger "
         "cases are judged by TLC.",
         "m <= 3, size <= 3 quick; m <= 4, size <= 4 thorough; wrapper sizes 2-4; M3 m <= 30, size <= 16; hop <= size; "
         "windows are Fraction lists; numpy absent (overlap_add.numpy and default transforms not covered); two float "
         "paths of the code (1/ceil without window, 0.0-padded gain sum) compared with 1e-9(1+|exact|). Trusted: TLC, "
         "LinForm, dump parser.",
         "DESIGN.md section 4 C09"),
 "C10": ("spec/dsp/Lpc.tla + LpcC10(Q|T).tla + trace/LpcTrace.tla",
         "TLC model checking of the Levinson-Durbin and Gram-Schmidt (kcovar) machines against the Toeplitz / covariance "
         "normal equations and energy identities in exact rational arithmetic + replay of every state on the real "
         "functions + TLC judgement of recorded float results through the defining linear equations",
         "All blocks and autocorrelation vectors of the grid are decided exactly by TLC (normal equations at every order, "
         "error identity, kautocor minimises the residual energy, kcovar normal equations) and each is executed by the "
         "real code at every intermediate order within 1e-9(1+|exact|) of the exact rationals; larger random inputs are "
         "accepted only if TLC finds their normal-equation residuals and error identity vanishing to ~5e-10 relative.",
         "blocks of length <= 5 over {-2..2}, orders <= 4 (M3 length <= 12, order <= 7); singular systems and kcovar "
         "refusals outside the statement; the code computes in floats (absent powers read as 0.0), hence the tolerance; "
         "numpy strategies out of scope. Trusted: TLC, fixed-point logging.",
         "DESIGN.md section 4 C10"),
 "C11": ("spec/dsp/Lpc.tla + LpcC11(Q|T).tla + trace/LpcTrace.tla",
         "TLC model checking of the step-down (parcor) machine against the step-up recursion and Levinson on generated "
         "autocorrelations, and of the Schur-Cohn verdict against pole locations of denominators built from rational "
         "roots + replay on parcor / parcor_stable / levinson_durbin + TLC-judged higher-order runs",
         "Inversion of step-up, the error product, the exception condition and stability <=> all poles strictly inside "
         "the unit circle (for every gain; checked on the model, not assumed) are decided by TLC for every grid case; the "
         "real code reproduces every yielded coefficient, exception and Boolean on those cases and on random orders <= 8.",
         "ks in {+-1/2, +-1/3, 1/4, 0, 2, -3/2, +-1}^<=4; roots {0, +-1/2, 2/3, +-1, +-3/2} and four complex pairs, 6 "
         "gains, order <= 4 (M3 <= 8); exact verdicts need Fraction coefficients; float compositions compared by the "
         "1e-9 rule away from |k| = 1. Trusted: TLC, Fraction.",
         "DESIGN.md section 4 C11"),
 "C12": ("spec/dsp/FreqResp.tla + lib/CRat.tla + FreqRespC12(Quick|Thorough).tla + trace/FreqRespTrace.tla",
         "TLC model checking over Gaussian rationals at w = m*pi/2 of the code-shaped evaluation (Horner with merged "
         "powers, nan test, reduce mul/add, per-element mapping, register-shift FIR, left-to-right DFT sum) against the "
         "transfer function and its time-domain consequences + replay of every state on the real objects + TLC-judged "
         "random higher-order observations",
         "TLC proves on the grid H(w) = sum b_k e^{-jwk} / sum a_k e^{-jwk}, product / sum across cascade / parallel, "
         "steady-state scaling, DFT of the impulse response = H, DFT linearity and DC mean, nan where the denominator "
         "vanishes; every state is replayed through several construction routes and all 9 container kinds; code floats "
         "are compared with 1e-9 relative tolerance against exact lattice values >= 2.4e-7 apart.",
         "Only frequencies that are multiples of pi/2 (agreement elsewhere is not decided); coefficients integers or "
         "dyadic of magnitude <= 4, orders <= 3-4 exhaustively, <= 8 randomly; denominators non-zero at the probed "
         "frequency or vanishing exactly at w = 0. Trusted: TLC, cmath.exp accurate to ~1e-15.",
         "DESIGN.md section 4 C12"),
 "C14": ("spec/dsp/Windows.tla + WindowTable.tla + WindowsReg.tla + lib/TrigForm.tla + trace/WindowsTrace.tla",
         "TLC model checking of the two exec'd window templates and of the strategy-registration loop against the "
         "documented closed forms and contracts in exact canonical trigonometric forms + replay of every enumerated "
         "state on the real window/wsymm objects + TLC judgement of recorded sample lists and registry projections",
         "Prefix (exact), symmetry, length, wsymm.X(1), COLA and the cross-references are decided exactly at every size "
         "of the grid on the model (samples are canonical cosine combinations, rational where the closed form is) and on "
         "the code through every alias and attribute path; recorded lists up to size 400 are judged relationally by TLC.",
         "sizes <= 20 quick / <= 64 thorough (M3 <= 400); irrational samples compared via libm cosine to 1e-9; relational "
         "float contracts in 2^-20 fixed point; blackman alpha in [0, 1/4]; cos alpha = 0 or >= 1/2. Trusted: TLC, libm cos.",
         "DESIGN.md section 4 C14"),
 "C18": ("spec/io/Codec.tla + CodecC18.tla + CodecC18T.tla + trace/CodecTrace.tla",
         "TLC model checking of the chunk packers (array fill loop, blocks+pack, floor-division two's complement) and of "
         "the WavStream unpackers and close protocol against positional byte definitions (incl. liveness of closing) + "
         "replay of every state on chunks.struct/chunks.array and WAV files written with stdlib wave + TLC-judged records",
         "Byte-exact for b/h/i over all byte orders with array == struct, exact integers / exact dyadic floats for "
         "8/16/24/32-bit mono and stereo including every sign-extension pattern, header mirrored, file open until "
         "exhaustion and closed after, for all enumerated cases; thousands of random larger inputs judged by TLC.",
         "f/d only by round trip through stdlib struct (no IEEE encoder in TLA+); pad/values of the format's type; "
         "byte_order in {None, '<', '>'}; closed = no descriptor in /proc/self/fd; grid lengths <= 5, sizes <= 4, M3 "
         "len <= 200. Trusted: TLC, stdlib wave/struct.",
         "DESIGN.md section 4 C18"),
 "C19": ("spec/dsp/Synth.tla + SynthC19.tla + trace/SynthTrace.tla",
         "TLC model checking of operational machines shaped like each generator (8-branch modulo_counter with batched fast "
         "path, envelope phase machines, table lookup, Lagrange resampler, linearised comb) against closed-form "
         "definitions in exact rational / linear-form arithmetic + replay of all enumerated states + TLC-judged random runs",
         "Within the grids TLC proves the operational machines equal the statement's closed forms for every sample value "
         "(all 8 argument-kind branches, fast path on/off, zero/negative/modulo-multiple steps, durations 0/fractional/"
         "inf, orders 1-4, ratios below/at/above 1); every enumerated state is executed on the real code through several "
         "argument routes and larger random runs are judged by TLC with the same operators.",
         "lengths <= 6 exhaustive / <= 320 random; exact comparison where the code is exact, 1e-9(1+|exact|) only where "
         "the code itself uses floats; sin trusted to libm (sinusoid compared in the harness); noise only length/range; "
         "time-varying modulo accepts either reading plus range; any enclosing resampling window accepted. Trusted: TLC, "
         "Rat/Lin modules, LinForm.",
         "DESIGN.md section 4 C19"),
 "C15": ("spec/core/MultiKeyDict.tla + StrategyDict.tla + trace/MultiKeyDictTrace.tla",
         "TLC full reachable state graph (refinement of the three-map machine to the key->value-with-recency "
         "definition) + transition-cover replay into the real objects + TLC trace validation of recorded histories",
         "TLC explores every history of any length over 3 keys x 3 values x key tuples <= 3 (full reachable graph, "
         "no depth bound) and checks the refinement and the property's clauses in every state/transition; every "
         "transition of that graph is then executed by the real MultiKeyDict/StrategyDict from the state the model "
         "says it is enabled in and the public-API projection compared; 200-400 call random histories over "
         "8 keys x 5 values are validated by TLC against the same specification.",
         "Bounded universes (3x3 exhaustively, 8x5 randomly); keys are attribute-safe strings; values pairwise "
         "unequal hashables. Trusted: TLC, the TLA+ value parser, the projection function.",
         "DESIGN.md section 4 C15"),
 "C20": ("spec/dsp/Analysis.tla + AnalysisC20.tla + trace/AnalysisTrace.tla",
         "TLC exhaustive check that each tool's code-shaped machine (deque/running mean, ZFilter strategies as cases of "
         "Filter.tla's register machine, running total, delay-line+abs+deque, one-pole recursion symbolic in the pole, "
         "clip branches, two-loop zcross, unwrap delta accumulator) equals its defining formula or satisfies the stated "
         "relational clauses + replay of every TLC state into the real tools + TLC judgement of recorded long runs",
         "The linear tools (maverage x3, accumulate x3) are decided for every input of bounded length and every zero "
         "value through linear-form samples; amdf, envelope, clip, zcross and unwrap on every input of length <= 3-5 "
         "over rational pools that hit every threshold position, crossed with hysteresis, first_sign, limits and "
         "(max_delta, step) grids. Every reached state (36k quick / 521k thorough) is executed on the real code through "
         "all strategy aliases, containers and number types; unwrap deviations from the model are judged only by the "
         "statement's three clauses; hundreds to thousands of random runs up to 300 samples are judged by TLC.",
         "integer sizes/lags >= 1, hysteresis >= 0, max_delta >= 0, step > 0, exact rational samples; fractional lags "
         "and the irrational default max_delta/step not covered; maverage/amdf/envelope compute in floats and are "
         "compared with 1e-9(1+|exact|); envelope gain/pole read from the code's own lowpass(cutoff). Trusted: TLC, "
         "Rat/Lin, LinForm.",
         "DESIGN.md section 4 C20"),
}

NOT_YET = "check not built yet in this round (see DESIGN.md section 9 for the order of work)"
NOT_APPLICABLE = {
 "C13": "real-analytic design contracts (cos/sqrt/exp over a continuum of parameters); no exact oracle exists in "
        "TLC's integer world, see DESIGN.md section 7",
}

ALL = ["C%02d" % i for i in range(1, 21)]


def main():
    checks = []
    for pid in ALL:
        if pid not in CLAIMED:
            continue
        eng, tech, text, note, ref = CLAIMED[pid]
        checks.append({
            "property_id": pid,
            "quick_cmd": "./vf check %s --tier quick" % pid,
            "thorough_cmd": "./vf check %s --tier thorough" % pid,
            "evidence_file": "/verif/evidence/%s.json" % pid,
            "replay_cmd_template": "./vf replay %s {path}" % pid,
            "engine": eng,
            "technique": tech,
            "level_claimed": {"category": "model_checking", "text": text, "design_ref": ref},
            "level_note": note,
        })
    na = []
    for pid in ALL:
        if pid in CLAIMED:
            continue
        na.append({"property_id": pid, "reason": NOT_APPLICABLE.get(pid, NOT_YET)})
    man = {
        "version": 1,
        "setup_cmd": "./vf sany",
        "hooks": {"guard": "AUDIOLAZY_VERIF", "enable": "no hooks are needed: checks import /repo/audiolazy "
                  "(VERIF_REPO) unmodified; lazy_io is loaded under a second module name with shim "
                  "threading/pyaudio modules",
                  "baseline_off_cmd": BASELINE, "source_commits": [], "add_only": True},
        "engines": [{"name": "tlc", "path": "/verif/spec", "serves_properties": sorted(CLAIMED),
                     "kind_free_text": "explicit TLA+ specification checked with TLC 1.8; bound to the code by "
                                       "spec->code replay and code->spec trace validation (harness/)"}],
        "checks": checks,
        "not_applicable": na,
        "notes": "exit 0 = held; exit 1 + VIOLATION line = code disagrees with the specification on a case the "
                 "property covers; exit 2 = machinery failure (never a verdict). A line MODEL-DRIFT (C17) reports "
                 "executions that the implementation-shaped model does not explain although the property-level "
                 "specification accepts them: it never changes the exit code. known_findings.json lists recorded "
                 "findings and fixed defects. Extension checks X01..X07 (./vf check X0n) grow the specification "
                 "beyond the listed properties and are not registered here. Self-tests: harness/selftest.py (code "
                 "mutants and benign refactorings in mutants/), harness/specmut.py (specification mutants), "
                 "harness/reseed.py (stored seeded regressions in seeded/).",
    }
    with open(os.path.join(VERIF, "MANIFEST.json"), "w") as fh:
        json.dump(man, fh, indent=1)
        fh.write("\n")


main()
