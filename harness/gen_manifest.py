"""Regenerate /verif/MANIFEST.json from the table below (kept valid at all times)."""
import json
import os

VERIF = os.path.dirname(os.path.dirname(os.path.abspath(__file__)))
BASELINE = ("cd /repo && /venv/bin/python -m pytest -ra -q -p no:cacheprovider --timeout=900 "
            "--continue-on-collection-errors")

# id -> (engine spec modules, technique, level text, level note, design ref)
CLAIMED = {
 "C04": ("spec/dsp/Filter.tla + FilterC04.tla + trace/FilterTrace.tla",
         "TLC exhaustive check that the generated-code register machine equals the difference equation on "
         "linear-form samples + replay of every TLC state into the real filter through every construction and "
         "memory route + TLC judgement of recorded runs of random higher-order filters",
         "The specification models the generated generator (registers, shift order, gain handling, all-zero and "
         "refusal branches) and the difference equation; TLC proves them equal on the whole coefficient grid with "
         "symbolic samples (linear forms = every number). Every reached state (filter, n, outputs) is replayed on "
         "the real ZFilter/LinearFilter built from lists, dicts and z-expressions with list/tuple/generator/callable "
         "memories, and random filters up to order 7/6 and 16-24 samples are judged by TLC.",
         "Coefficients integers or dyadic rationals (the library formats coefficients into source text); input "
         "length <= 4 exhaustively, <= 24 randomly; memories of sufficient length. Trusted: TLC, LinForm "
         "(40 lines of Fraction arithmetic), the dump parser.",
         "DESIGN.md section 4 C04"),
 "C15": ("spec/core/MultiKeyDict.tla + StrategyDict.tla + trace/MultiKeyDictTrace.tla",
         "TLC full reachable state graph (refinement of the three-map machine to the key->value-with-recency "
         "definition) + transition-cover replay into the real objects + TLC trace validation of recorded histories",
         "TLC explores every history of any length over 3 keys x 3 values x key tuples <= 3 (full reachable graph, "
         "no depth bound) and checks the refinement and the property's clauses in every state/transition; every "
         "transition of that graph is then executed by the real MultiKeyDict/StrategyDict from the state the model "
         "says it is enabled in and the public-API projection compared; 200-400 call random histories over "
         "8 keys x 5 values are validated by TLC against the same specification.",
         "Bounded universes (3x3 exhaustively, 8x5 randomly); keys are attribute-safe strings; values pairwise "
         "unequal hashables. Trusted: TLC, the TLA+ value parser, the projection function.",
         "DESIGN.md section 4 C15"),
}

NOT_YET = "check not built yet in this round (see DESIGN.md section 9 for the order of work)"
NOT_APPLICABLE = {
 "C13": "real-analytic design contracts (cos/sqrt/exp over a continuum of parameters); no exact oracle exists in "
        "TLC's integer world, see DESIGN.md section 7",
}

ALL = ["C%02d" % i for i in range(1, 21)]


def main():
    checks = []
    for pid in ALL:
        if pid not in CLAIMED:
            continue
        eng, tech, text, note, ref = CLAIMED[pid]
        checks.append({
            "property_id": pid,
            "quick_cmd": "./vf check %s --tier quick" % pid,
            "thorough_cmd": "./vf check %s --tier thorough" % pid,
            "evidence_file": "/verif/evidence/%s.json" % pid,
            "replay_cmd_template": "./vf replay %s {path}" % pid,
            "engine": eng,
            "technique": tech,
            "level_claimed": {"category": "model_checking", "text": text, "design_ref": ref},
            "level_note": note,
        })
    na = []
    for pid in ALL:
        if pid in CLAIMED:
            continue
        na.append({"property_id": pid, "reason": NOT_APPLICABLE.get(pid, NOT_YET)})
    man = {
        "version": 1,
        "setup_cmd": "./vf sany",
        "hooks": {"guard": "AUDIOLAZY_VERIF", "enable": "no hooks are needed: checks import /repo/audiolazy "
                  "(VERIF_REPO) unmodified; lazy_io is loaded under a second module name with shim "
                  "threading/pyaudio modules",
                  "baseline_off_cmd": BASELINE, "source_commits": [], "add_only": True},
        "engines": [{"name": "tlc", "path": "/verif/spec", "serves_properties": sorted(CLAIMED),
                     "kind_free_text": "explicit TLA+ specification checked with TLC 1.8; bound to the code by "
                                       "spec->code replay and code->spec trace validation (harness/)"}],
        "checks": checks,
        "not_applicable": na,
        "notes": "exit 0 = held; exit 1 + VIOLATION line = code disagrees with the specification on a case the "
                 "property covers; exit 2 = machinery failure (never a verdict). known_findings.json lists "
                 "recorded findings and fixed defects.",
    }
    with open(os.path.join(VERIF, "MANIFEST.json"), "w") as fh:
        json.dump(man, fh, indent=1)
        fh.write("\n")


main()
