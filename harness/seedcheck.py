"""Confirm a seeded regression (patch.diff + demo.py produced by an independent sub-agent in its own worktree) and
run the property's check against it.

usage: seedcheck.py <property id> <worktree> [<name>] [--tier quick|thorough] [--no-tests]
Steps (all in the scratch worktree, never in /repo):
  1. patch reverted  -> demo.py must exit 0
  2. patch applied   -> demo.py must exit != 0
  3. patch applied   -> the repository's pinned test suite must still pass every stable-pass item
  4. patch applied   -> ./vf check <id> with VERIF_REPO=<worktree> : VIOLATION expected
Stores /verif/seeded/<name>/{patch.diff, demo.py, notes.md, meta.json}.
"""
import json
import os
import shutil
import subprocess
import sys
import tempfile
import xml.etree.ElementTree as ET

VERIF = os.path.dirname(os.path.dirname(os.path.abspath(__file__)))


def sh(cmd, cwd=None, env=None):
    p = subprocess.run(cmd, shell=True, cwd=cwd, env=env, stdout=subprocess.PIPE, stderr=subprocess.STDOUT,
                       universal_newlines=True)
    return p.returncode, p.stdout


def suite(wt):
    base = json.load(open("/root/.vp/BASELINE.json"))
    fd, path = tempfile.mkstemp(suffix=".xml")
    os.close(fd)
    cmd = base["cmd"].replace("<file>", path).replace("cd /repo", "cd " + wt) + " --ignore=seed"
    sh(cmd)
    passed = set()
    for tc in ET.parse(path).getroot().iter("testcase"):
        if not any(ch.tag in ("failure", "error", "skipped") for ch in tc):
            passed.add("%s::%s" % (tc.get("classname"), tc.get("name")))
    os.unlink(path)
    return sorted(set(base["stable_pass"]) - passed)


def main():
    args = [a for a in sys.argv[1:] if not a.startswith("--")]
    pid, wt = args[0], args[1]
    name = args[2] if len(args) > 2 else pid.lower() + "_seed1"
    tier = "thorough" if "--tier=thorough" in sys.argv else "quick"
    patch = os.path.join(wt, "seed", "patch.diff")
    demo = os.path.join(wt, "seed", "demo.py")
    meta = {"property": pid, "name": name, "worktree_head": sh("git rev-parse HEAD", cwd=wt)[1].strip()}
    # make sure the patch is what is applied, on top of /repo's current HEAD
    sh("git checkout -- audiolazy", cwd=wt)
    head = sh("git rev-parse HEAD", cwd="/repo")[1].strip()
    sh("git checkout -q --detach %s" % head, cwd=wt)
    meta["worktree_head"] = sh("git rev-parse HEAD", cwd=wt)[1].strip()
    rc0, out0 = sh("/venv/bin/python -W ignore seed/demo.py", cwd=wt)
    rc, out = sh("git apply seed/patch.diff", cwd=wt)
    if rc != 0:
        print("patch does not apply:", out)
        return 2
    rc1, out1 = sh("/venv/bin/python -W ignore seed/demo.py", cwd=wt)
    meta["demo_exit_without_patch"] = rc0
    meta["demo_exit_with_patch"] = rc1
    meta["demo_output_with_patch"] = out1[-1500:]
    print("demo: without patch rc=%d, with patch rc=%d" % (rc0, rc1))
    if "--no-tests" not in sys.argv:
        missing = suite(wt)
        meta["stable_pass_items_lost_with_patch"] = missing
        print("test suite with patch: %d stable-pass items lost" % len(missing))
    env = dict(os.environ, VERIF_REPO=wt, VERIF_NO_EVIDENCE="1")
    rc, out = sh("%s/vf check %s --tier %s" % (VERIF, pid, tier), cwd=VERIF, env=env)
    keys = sorted(set(l.strip()[4:] for l in out.splitlines() if l.startswith("  key=")))
    meta["check_cmd"] = "VERIF_REPO=<worktree with patch applied> ./vf check %s --tier %s" % (pid, tier)
    meta["check_exit"] = rc
    meta["check_violation_keys"] = keys
    meta["detected"] = bool(rc == 1 and keys)
    print("check exit=%d keys=%s" % (rc, keys))
    if rc not in (0, 1):
        print(out[-3000:])
    d = os.path.join(VERIF, "seeded", name)
    os.makedirs(d, exist_ok=True)
    shutil.copy(patch, os.path.join(d, "patch.diff"))
    shutil.copy(demo, os.path.join(d, "demo.py"))
    if os.path.exists(os.path.join(wt, "seed", "notes.md")):
        shutil.copy(os.path.join(wt, "seed", "notes.md"), os.path.join(d, "notes.md"))
    with open(os.path.join(d, "meta.json"), "w") as fh:
        json.dump(meta, fh, indent=1)
    return 0


sys.exit(main())
