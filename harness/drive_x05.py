"""X05 (extension) - the operator-overloading machinery of lazy_core: OpMethod (the table built by
_initialize/_insert and the query language of OpMethod.get(key, without)) and AbstractOperatorOverloaderMeta.__new__
(which dunders are built from which template, hand-written dunders win, abstract enforcement), the declarations of
the library's concrete metaclasses, and the neighbours lazy_stream.tostream / avoid_stream, lazy_compat.meta.

M1  TLC: spec/core/OpFacts (the dictionary `_all` == the relation Matches, table shape, order within a symbol, the
    docstrings' examples, the library's declarations are constructible), OpGet on the X05 grid (generator machine ==
    pure operator == documented answer DefGet; prefix, laziness of the error, `without`, once-when-disjoint) and
    OpClass on the X05 grid (loop machine == Construct == DefConstruct; error iff / first lacking operator /
    installed exactly / manual wins / nothing else / __name__).
M2  spec -> code: every final state TLC reached is replayed -- the query on the REAL OpMethod.get through several call
    routes (names in order, every attribute of every yielded instance against the exported table, exception type and
    message, number of items yielded before the exception), the construction case on a metaclass freshly built with
    type(...) from AbstractOperatorOverloaderMeta (outcome, exception, installed dunders with template kind and
    __name__, hand-written names untouched, builder calls).
M3  code -> spec: seeded random queries / constructions larger than the grid, the attributes of the real table, the
    operator dunders in the __dict__ of every concrete library class, empty subclasses, and the neighbours are recorded
    and judged by TLC (spec/trace/OpTableTrace.tla).
"""
import collections
import operator
import os
import re
import types

import common
import tlaval
import tlc
import tracecheck

KINDS = ("binary", "rbinary", "unary")
BLANKS = " \t\n\r"


# ------------------------------------------------------------------------------------------ spec value -> Python
def py_elem(e, route):
    k = e["k"]
    if k == "str":
        return e["s"]
    if k == "int":
        return e["n"]
    if k == "fn":
        f = getattr(operator, e["s"])
        alias = getattr(operator, e["s"].strip("_"), None) or getattr(operator, e["s"].strip("_") + "_", None)
        return alias if (route % 2 and alias is f) else f          # operator.add is operator.__add__
    if k == "none":
        return None
    if k == "list":
        return ["+"]                                                # an unhashable element
    raise tlc.MachineryError("unknown element kind %r" % (k,))


class OnlyIter(object):
    """An iterable that is nothing but iterable (recognised through Iterable.__subclasshook__)."""
    def __init__(self, items):
        self.items = items

    def __iter__(self):
        return iter(self.items)


CONTAINERS = ("list", "tuple", "generator", "iterator", "deque", "onlyiter")


def py_key(K, route):
    """The Python value of a key record; `route` picks the container type of an iterable."""
    if K["k"] != "seq":
        return py_elem(K, route)
    items = [py_elem(e, route) for e in K["items"]]
    c = CONTAINERS[route % len(CONTAINERS)]
    if c == "list":
        return items
    if c == "tuple":
        return tuple(items)
    if c == "generator":
        return (x for x in items)
    if c == "iterator":
        return iter(items)
    if c == "deque":
        return collections.deque(items)
    return OnlyIter(items)


def key_text(K):
    if K["k"] == "seq":
        return "[" + ", ".join(key_text(e) for e in K["items"]) + "]"
    return {"str": lambda: repr(K["s"]), "int": lambda: str(K["n"]), "fn": lambda: "operator." + K["s"],
            "none": lambda: "None", "list": lambda: "['+']", "default": lambda: "<default>"}[K["k"]]()


def err_rec(ex):
    if ex is None:
        return {"t": "none", "msg": ""}
    return {"t": type(ex).__name__, "msg": str(ex)}


def observe_get(al, K, W, route):
    """Run the real generator to its end: (instances yielded, error record, facts)."""
    OpMethod = al.OpMethod
    key = py_key(K, route)
    wo = py_key(W, route // 2)
    if W["k"] == "none":
        form = route % 3
        if K == {"k": "str", "s": "all", "n": 0, "items": ()} and route % 2:
            g = OpMethod.get()                                       # key defaults to "all"
        elif form == 0:
            g = OpMethod.get(key)
        elif form == 1:
            g = OpMethod.get(key, None)
        else:
            g = OpMethod.get(key, without=None)
    else:
        g = OpMethod.get(key, wo) if route % 2 else OpMethod.get(key=key, without=wo)
    facts = {"generator": isinstance(g, types.GeneratorType)}
    out, err = [], None
    while True:
        try:
            out.append(next(g))
        except StopIteration:
            break
        except Exception as ex:                                      # noqa: BLE001 - the type is the observation
            err = ex
            break
        if len(out) > 500:
            raise tlc.MachineryError("OpMethod.get(%s) does not end" % key_text(K))
    try:
        next(g)
        facts["dead_after_end"] = False
    except StopIteration:
        facts["dead_after_end"] = True
    except Exception:                                                # noqa: BLE001
        facts["dead_after_end"] = False
    return out, err_rec(err), facts


def func_names(f):
    return sorted(n for n in dir(operator) if n.startswith("__") and n.endswith("__") and getattr(operator, n) is f)


def op_attrs(op):
    return {"name": op.name, "symbol": op.symbol, "rev": op.rev, "dname": op.dname, "arity": op.arity,
            "funcs": func_names(op.func), "repr": repr(op)}


# ------------------------------------------------------------------------------------------ dump reading
def final_states(path, is_final, counter):
    """States of a TLC dump whose text block satisfies is_final (only those are parsed); counter[0] = all states."""
    buf = []

    def flush():
        if buf:
            counter[0] += 1
            blk = "".join(buf)
            if is_final(blk):
                return tlaval.parse_state(blk)
        return None

    with open(path) as fh:
        for line in fh:
            if line.startswith("State ") and line.rstrip().endswith(":"):
                st = flush()
                if st is not None:
                    yield st
                buf = []
            else:
                buf.append(line)
    if "".join(buf).strip():
        st = flush()
        if st is not None:
            yield st


_GET_FINAL = re.compile(r'^/\\ ph = "(?:done|raised)"', re.M)
_CLS_FINAL = re.compile(r'ph \|-> "(?:done|raised)"')


# ------------------------------------------------------------------------------------------ M1 + M2: get
def m1_facts(ctx):
    r = tlc.require_ok(tlc.run("OpFacts", "OpFacts.cfg"), "OpFacts", need_actions=("Init",))
    ctx.add_tlc(r, "OpFacts: _all == Matches, table shape, symbol order, docstring examples, library declarations")
    rows = reprs = None
    for p in r.prints:
        if isinstance(p, tuple) and p and p[0] == "ROWS":
            rows = p[1]
        elif isinstance(p, tuple) and p and p[0] == "REPRS":
            reprs = p[1]
    if not rows or not reprs or len(rows) != len(reprs):
        raise tlc.MachineryError("OpFacts did not export the table")
    return rows, reprs


def same_op(op, row, rep):
    """A real OpMethod instance against a row of the exported table, field by field."""
    bad = []
    for f in ("name", "symbol", "dname"):
        if getattr(op, f, None) != row[f]:
            bad.append(f)
    if getattr(op, "rev", None) is not row["rev"]:
        bad.append("rev")
    if getattr(op, "arity", None) != row["arity"] or isinstance(getattr(op, "arity", None), bool):
        bad.append("arity")
    if getattr(op, "func", None) is not getattr(operator, row["func"]):
        bad.append("func")
    if repr(op) != rep:
        bad.append("repr")
    return bad


def m2_get(ctx, al, module, cfg, rows, reprs):
    d = tlc.scratch_dir("x05g")
    dump = os.path.join(d, "states")
    r = tlc.require_ok(tlc.run(module, cfg, dump=dump, timeout=2400), module,
                       need_actions=("Pick", "Start", "Token", "Raise", "Finish"))
    ctx.add_tlc(r, "OpGet (X05 grid): generator machine == RunGet == documented answer")
    counter = [0]
    nfinal = 0
    repeats = 0
    same_object = True
    for st in final_states(dump + ".dump", _GET_FINAL.search, counter):
        nfinal += 1
        case = st["case"]
        K, W = case["key"], case["wo"]
        want_names = [rows[i - 1]["name"] for i in st["out"]]
        want_err = st["err"]
        ntok = len(st["out"])
        for route in (nfinal, nfinal * 7 + 3):
            out, err, facts = observe_get(al, K, W, route)
            names = [getattr(o, "name", "?") for o in out]
            nontrivial = (K["k"] == "seq" and len(K["items"]) >= 2) or (K["k"] == "str" and len(K["s"].split()) >= 2) \
                or W["k"] != "none"
            ctx.count(1, nontrivial_key=(key_text(K), key_text(W)) if nontrivial else None)
            clause = None
            if err["t"] != want_err["t"]:
                clause = "exception"
            elif len(names) != len(want_names):
                clause = "count"
            elif names != want_names:
                clause = "names"
            elif want_err["t"] == "ValueError" and err["msg"] != want_err["msg"]:
                clause = "message"
            elif not facts["generator"]:
                clause = "not-a-generator"
            else:
                for o, i in zip(out, st["out"]):
                    bad = same_op(o, rows[i - 1], reprs[i - 1])
                    if bad:
                        clause = "attributes"
                        break
            if clause:
                ctx.violation("X05:get:%s" % clause,
                              {"key": key_text(K), "without": key_text(W), "container": CONTAINERS[route % len(CONTAINERS)],
                               "expected_names": want_names, "names": names, "expected_error": want_err, "error": err,
                               "yielded_before_end": len(names), "expected_yielded": ntok})
                break
            if len(set(names)) != len(names):
                repeats += 1
                by = {}
                for o in out:
                    same_object = same_object and by.setdefault(o.name, o) is o
            if not facts["dead_after_end"]:
                ctx.violation("X05:get:resumes-after-end", {"key": key_text(K), "without": key_text(W)})
        if nfinal % 1500 == 1:
            ctx.sample({"get": {"key": key_text(K), "without": key_text(W), "names": want_names[:8], "error": want_err}})
    if counter[0] != r.distinct:
        raise tlc.MachineryError("%s: dump has %d states, TLC reported %d" % (module, counter[0], r.distinct))
    if nfinal == 0:
        raise tlc.MachineryError("%s: no final state in the dump" % module)
    ctx.traces += nfinal
    ctx.log("M2 get: %d states, %d finished iterations replayed on OpMethod.get (2 routes each)" % (counter[0], nfinal))
    if repeats:
        ctx.log("note: %d replayed queries whose values overlap yield an operator more than once (e.g. '+ add' -> add, "
                "radd, pos, add); the docstring's 'matches the query once' is only demanded of non-overlapping values; "
                "repeated items are the same instance: %s" % (repeats, same_object))


# ------------------------------------------------------------------------------------------ class construction
class Log(list):
    pass


def make_builder(kind, log):
    def builder(cls, op):
        log.append([kind, op.dname, getattr(cls, "__name__", "?")])

        def dunder(self, *args):
            return (kind, op.name)
        dunder._x05 = (kind, op.name)
        return dunder
    return builder


def make_nonbuilder(value):
    def builder(cls, op):
        return value
    return builder


def make_hand(name, tag):
    def fn(self, *args):
        return (tag, name)
    fn.__name__ = name
    fn._x05 = (tag, name)
    return fn


def observe_class(al, c, route):
    """Build a fresh concrete metaclass with type(...) and construct one class through it."""
    log = Log()
    mns = {}
    if c["ops"]["k"] != "default":
        mns["__operators__"] = py_key(c["ops"], route)
    if c["wo"]["k"] != "default":
        mns["__without__"] = py_key(c["wo"], route // 3)
    for kind in KINDS:
        attr = "__%s__" % kind
        if kind in c["bld"]:
            mns[attr] = make_builder(kind, log)
        else:
            how = (route + KINDS.index(kind)) % 4       # not overridden / returns NotImplemented / None / a non-callable
            if how == 1:
                mns[attr] = make_nonbuilder(NotImplemented)
            elif how == 2:
                mns[attr] = make_nonbuilder(None)
            elif how == 3:
                mns[attr] = make_nonbuilder(0)
    M = type("X05Meta", (al.AbstractOperatorOverloaderMeta,), mns)
    ns = {n: make_hand(n, "hand") for n in sorted(c["hand"])}
    bases = (object,)
    if c["inh"]:
        bases = (type("X05Base", (object,), {n: make_hand(n, "inh") for n in sorted(c["inh"])}),)
    given = dict(ns)
    err, cls = None, None
    try:
        cls = M(c["name"], bases, ns)
    except Exception as ex:                                       # noqa: BLE001
        err = ex
    obs = {"res": "done" if err is None else "raised", "err": err_rec(err), "inst": [], "kept": [],
           "calls": [list(x) for x in log], "stray": [], "meta_ok": True}
    if cls is not None:
        obs["meta_ok"] = type(cls) is M and cls.__name__ == c["name"]
        for n, v in sorted(vars(cls).items()):
            tag = getattr(v, "_x05", None)
            if n in given:
                if v is given[n]:
                    obs["kept"].append(n)
                continue
            if tag is not None:
                obs["inst"].append({"d": n, "kind": tag[0], "op": tag[1], "nm": getattr(v, "__name__", "?")})
            elif isinstance(v, types.FunctionType):
                obs["stray"].append(n)
    return obs


def class_text(c):
    return {"name": c["name"], "__operators__": key_text(c["ops"]), "__without__": key_text(c["wo"]),
            "builders": sorted(c["bld"]), "hand_written": sorted(c["hand"]), "inherited": sorted(c["inh"])}


def m2_class(ctx, al, module, cfg):
    d = tlc.scratch_dir("x05c")
    dump = os.path.join(d, "states")
    r = tlc.require_ok(tlc.run(module, cfg, dump=dump, timeout=2400), module,
                       need_actions=("Pick", "Keep", "Build", "Fail", "QueryError", "Done"))
    ctx.add_tlc(r, "OpClass (X05 grid): construction loop == Construct == DefConstruct")
    counter = [0]
    nfinal = 0
    seqdiff = 0
    for s in final_states(dump + ".dump", _CLS_FINAL.search, counter):
        st = s["st"]
        if st["ph"] not in ("done", "raised"):
            continue
        nfinal += 1
        c = s["ccase"]
        obs = observe_class(al, c, nfinal)
        ctx.count(1, nontrivial_key=(nfinal,) if len(s["gen"]["out"]) >= 1 else None)
        want_inst = sorted(({"d": x["d"], "kind": x["kind"], "op": x["op"], "nm": x["nm"]} for x in st["inst"]),
                           key=lambda x: x["d"])
        clause = None
        if obs["res"] != st["ph"]:
            clause = "outcome"
        elif obs["err"]["t"] != st["err"]["t"]:
            clause = "exception"
        elif st["err"]["t"] == "ValueError" and obs["err"]["msg"] != st["err"]["msg"]:
            clause = "message"
        elif st["err"]["t"] == "TypeError" and st["err"]["msg"] and obs["err"]["msg"] != st["err"]["msg"]:
            clause = "message"
        elif st["ph"] == "done":
            if [x["d"] for x in obs["inst"]] != [x["d"] for x in want_inst] or obs["stray"]:
                clause = "installed"
            elif [(x["d"], x["kind"], x["op"]) for x in obs["inst"]] != [(x["d"], x["kind"], x["op"]) for x in want_inst]:
                clause = "template"
            elif [x["nm"] for x in obs["inst"]] != [x["nm"] for x in want_inst]:
                clause = "name"
            elif set(obs["kept"]) != set(c["hand"]):
                clause = "manual"
            elif not obs["meta_ok"]:
                clause = "class-object"
        if clause is None:
            want_calls = [[k, dn, c["name"]] for k, dn in st["calls"]]
            if set(map(tuple, obs["calls"])) != set(map(tuple, want_calls)):
                clause = "calls-justified"         # a builder ran for a hand-written / unselected operator (or did not run)
            elif obs["calls"] != want_calls:
                seqdiff += 1
        if clause:
            ctx.violation("X05:class:%s" % clause,
                          {"case": class_text(c), "expected": {"res": st["ph"], "err": st["err"], "installed": want_inst,
                                                               "calls": [list(x) for x in st["calls"]]},
                           "observed": obs})
        if nfinal % 900 == 1:
            ctx.sample({"class": class_text(c), "outcome": st["ph"], "error": st["err"],
                        "installed": [x["d"] for x in want_inst][:6]})
    if counter[0] != r.distinct:
        raise tlc.MachineryError("%s: dump has %d states, TLC reported %d" % (module, counter[0], r.distinct))
    if nfinal == 0:
        raise tlc.MachineryError("%s: no final state in the dump" % module)
    ctx.traces += nfinal
    ctx.log("M2 class: %d states, %d finished constructions replayed through type(...)" % (counter[0], nfinal))
    if seqdiff:
        ctx.log("note: %d constructions call the builders in another order / number than the model (diagnostics only)"
                % seqdiff)


# ------------------------------------------------------------------------------------------ M3: generators of inputs
SYMBOLS = ["+", "-", "*", "/", "//", "%", "**", ">>", "<<", "~", "&", "|", "^", "<", "<=", "==", "!=", ">", ">=", "@"]
NAMES = ["add", "radd", "pos", "sub", "rsub", "neg", "mul", "rmul", "truediv", "rtruediv", "floordiv", "rfloordiv",
         "mod", "rmod", "pow", "rpow", "rshift", "rrshift", "lshift", "rlshift", "invert", "and", "rand", "or", "ror",
         "xor", "rxor", "lt", "le", "eq", "ne", "gt", "ge", "matmul", "rmatmul"]
FUNCS = ["__add__", "__pos__", "__sub__", "__neg__", "__mul__", "__truediv__", "__floordiv__", "__mod__", "__pow__",
         "__rshift__", "__lshift__", "__invert__", "__and__", "__or__", "__xor__", "__lt__", "__le__", "__eq__",
         "__ne__", "__gt__", "__ge__", "__matmul__", "__inv__"]
BADFUNCS = ["__abs__", "__index__", "__concat__", "__contains__", "__iadd__", "__getitem__", "__call__"]
BADWORDS = ["div", "__div__", "rdiv", "__rdiv__", "foo", "radd_", "__radd", "Add", "+-", "rshif", "rr", "3", "0", "r2",
            "__r__", "ALL", "radd__", "rlt", "req", "rpos", "idiv", "__all__", "12", "-1"]


def T(k, s="", n=0, items=()):
    return {"k": k, "s": s, "n": n, "items": list(items)}


def rand_word(rng, pbad):
    x = rng.random()
    if x < pbad:
        return rng.choice(BADWORDS)
    x = rng.random()
    if x < 0.40:
        return rng.choice(SYMBOLS)
    if x < 0.65:
        return rng.choice(NAMES)
    if x < 0.80:
        return "__%s__" % rng.choice(NAMES)
    return rng.choice(["all", "r", "1", "2", "r", "1"])


def rand_text(rng, nwords, pbad):
    ws = [rand_word(rng, pbad) for _ in range(nwords)]

    def gap(minlen):
        return "".join(rng.choice(BLANKS) for _ in range(rng.choice([minlen, minlen, 1, 1, 2, 3]) if minlen else
                                                         rng.choice([0, 0, 0, 1, 2])))
    if rng.random() < 0.5:
        return " ".join(ws)
    s = gap(0)
    for i, w in enumerate(ws):
        s += w + (gap(1) if i + 1 < len(ws) else gap(0))
    return s


def rand_elem(rng, pbad):
    x = rng.random()
    if x < 0.62:
        return T("str", rand_text(rng, rng.choice([0, 1, 1, 1, 2, 2, 3, 4]), pbad))
    if x < 0.76:
        return T("int", n=rng.choice([1, 2, 1, 2, 1, 2, 3, 0, -1, 12]) if rng.random() < pbad * 3 else rng.choice([1, 2]))
    if x < 0.96:
        return T("fn", rng.choice(BADFUNCS) if rng.random() < pbad * 2 else rng.choice(FUNCS))
    if x < 0.985:
        return T("none")
    return T("list")


def rand_key(rng, maxitems, pbad, allow_none=True):
    x = rng.random()
    if allow_none and x < 0.06:
        return T("none")
    if x < 0.30:
        return T("str", rand_text(rng, rng.choice([0, 1, 2, 2, 3, 4, 5]), pbad))
    if x < 0.36:
        return T("int", n=rng.choice([1, 2, 1, 2, 5]))
    if x < 0.44:
        return T("fn", rng.choice(FUNCS + BADFUNCS[:1]))
    n = rng.randint(0, maxitems)
    return T("seq", items=[rand_elem(rng, pbad) for _ in range(n)])


def rand_without(rng, pbad):
    if rng.random() < 0.35:
        return T("none")
    return rand_key(rng, 3, pbad, allow_none=False)


def freeze_key(K):
    """JSON-shaped key -> the shape tlaval gives (tuples), for the shared observers."""
    return {"k": K["k"], "s": K["s"], "n": K["n"], "items": tuple(freeze_key(e) for e in K["items"])}


LIB_CLASSES = ["Stream", "ControlStream", "StreamTeeHub", "Streamix", "RecStream", "WavStream", "Poly", "ZFilter",
               "FilterList", "CascadeFilter", "ParallelFilter", "TableLookup"]


def lib_class(al, name):
    if hasattr(al, name):
        return getattr(al, name)
    for mod in ("lazy_io", "lazy_wav"):
        m = __import__("audiolazy." + mod, fromlist=[name])
        if hasattr(m, name):
            return getattr(m, name)
    raise tlc.MachineryError("library class %s not found" % name)


def lib_record(al, name):
    cls = lib_class(al, name)
    dunders = []
    for n, v in sorted(vars(cls).items()):
        if not re.match(r"^__\w+__$", n) or not isinstance(v, types.FunctionType):
            continue
        q = getattr(v, "__qualname__", "")
        m = re.match(r"^(\w+)\.(__\w+__)\.<locals>\.dunder$", q)
        if m:
            origin, owner = m.group(2), m.group(1)
        elif q == "%s.%s" % (cls.__name__, n):
            origin, owner = "hand", ""
        else:
            origin, owner = "other:" + q, ""
        dunders.append({"d": n, "origin": origin, "owner": owner, "nm": v.__name__})
    return {"kind": "lib", "cls": name, "meta": type(cls).__name__, "bases": [b.__name__ for b in cls.__bases__],
            "dunders": dunders, "decl": decl_record(al, type(cls))}


def value_key(v):
    """A Python value used as __operators__ / __without__ -> key record."""
    def elem(x):
        if x is None:
            return T("none")
        if isinstance(x, str):
            return T("str", x)
        if isinstance(x, bool):
            return T("other", repr(x))
        if isinstance(x, int):
            return T("int", n=x)
        names = func_names(x) if callable(x) else []
        if names:
            return T("fn", names[-1] if "__invert__" not in names else "__invert__")
        return T("other", repr(x))
    if v is None or isinstance(v, (str, int)) or callable(v):
        return elem(v)
    return T("seq", items=[elem(x) for x in v])


def decl_record(al, mc):
    """What the concrete metaclass declares: __operators__ / __without__ (default = not overridden below
    AbstractOperatorOverloaderMeta) and the function behind each of the three builders."""
    base = al.AbstractOperatorOverloaderMeta
    out = {}
    for attr, field in (("__operators__", "ops"), ("__without__", "wo")):
        owner = next(k for k in mc.__mro__ if attr in vars(k))
        out[field] = T("default") if owner is base else value_key(vars(owner)[attr])
    out["bld"] = {}
    for kind in KINDS:
        owner = next(k for k in mc.__mro__ if "__%s__" % kind in vars(k))
        out["bld"][kind] = "none" if owner is base else vars(owner)["__%s__" % kind].__name__
    return out


def libsub_record(al, name, route):
    cls = lib_class(al, name)
    sub = "X05Sub%s" % name
    err = None
    try:
        if route % 2:
            type(cls)(sub, (cls,), {})
        else:
            env = {"base": cls}
            exec("class %s(base):\n  pass\n" % sub, env)
    except Exception as ex:                                       # noqa: BLE001
        err = ex
    return {"kind": "libsub", "cls": name, "sub": sub, "res": "done" if err is None else "raised", "err": err_rec(err)}


def meta_records(al, rng, count):
    recs = []
    meta = al.lazy_compat.meta if hasattr(al, "lazy_compat") else __import__("audiolazy.lazy_compat",
                                                                            fromlist=["meta"]).meta
    init_skipped = 0
    for i in range(count):
        nb = rng.choice([0, 0, 1, 1, 2, 3])
        hasmeta = rng.random() < 0.7
        calls, inits = [], []

        class M(type):
            def __new__(mcls, name, bases, ns):
                calls.append({"name": name, "bases": [b.__name__ for b in bases], "sawbody": "body_marker" in ns})
                return super(M, mcls).__new__(mcls, name, bases, ns)

            def __init__(cls, name, bases, ns):
                inits.append(name)
                super(M, cls).__init__(name, bases, ns)
        bases = tuple(type("B%d" % j, (object,), {}) for j in range(1, nb + 1))
        name, sub = "X05K%d" % i, "X05KSub%d" % i
        tmp = meta(*bases, metaclass=M) if hasmeta else meta(*bases)
        env = {"tmp": tmp}
        exec("class %s(tmp):\n  body_marker = 1\nclass %s(%s):\n  body_marker = 2\n" % (name, sub, name), env)
        X, Y = env[name], env[sub]
        tname = lambda k: "M" if type(k) is M else type(k).__name__   # noqa: E731
        recs.append({"kind": "meta",
                     "c": {"name": name, "sub": sub, "bases": [b.__name__ for b in bases], "hasmeta": hasmeta},
                     "obs": {"type": tname(X), "bases": [b.__name__ for b in X.__bases__], "newcalls": calls,
                             "subtype": tname(Y), "issub": issubclass(Y, X) and Y.__bases__ == (X,)}})
        if hasmeta and name not in inits:
            init_skipped += 1
    return recs, init_skipped


def tostream_records(al, rng, count):
    recs = []
    for i in range(count):
        started = []
        items = [rng.randint(-9, 9) for _ in range(rng.randint(0, 6))]
        fkind = rng.choice(["gen", "gen", "list"])
        if fkind == "gen":
            def source(xs, scale=1):
                "yields the items"
                started.append(1)
                for x in xs:
                    yield x * scale
        else:
            def source(xs, scale=1):
                "returns the items"
                started.append(1)
                return [x * scale for x in xs]
        modname = rng.choice(["", "", "some.where", "audiolazy.lazy_synth"])
        how = rng.randrange(3)
        if modname:
            wrapped = al.tostream(source, module_name=modname) if how else al.tostream(source, modname)
        else:
            wrapped = al.tostream(source) if how else al.tostream(source, None)
        res = wrapped(items, scale=2) if how == 2 else wrapped(items)
        scale = 2 if how == 2 else 1
        obs = {"isstream": isinstance(res, al.Stream), "started": bool(started)}
        try:
            obs["out"] = list(res)
        except Exception as ex:                                   # noqa: BLE001
            obs["out"] = [9999]
        obs.update(name=str(wrapped.__name__), doc=str(wrapped.__doc__ or ""), module=str(wrapped.__module__))
        recs.append({"kind": "tostream",
                     "c": {"items": [x * scale for x in items], "fname": "source", "fdoc": source.__doc__,
                           "fmodule": source.__module__, "modname": modname, "fkind": fkind},
                     "obs": obs})
    return recs


def call_result(Stream, fn, me, operand, kind):
    try:
        res = fn(me) if kind == "unary" else fn(me, operand)
    except Exception as ex:                                       # noqa: BLE001
        return "raised " + type(ex).__name__
    return "NotImplemented" if res is NotImplemented else "Stream" if isinstance(res, Stream) else type(res).__name__


def avoid_records(al, rng, count):
    """The registry is process-global (Stream.__ignored_classes__): saved and restored around the observations."""
    recs = []
    Stream = al.Stream
    saved = Stream.__ignored_classes__
    selfs = {"Stream": lambda: Stream([1, 2, 3]), "ControlStream": lambda: al.ControlStream(2),
             "Streamix": lambda: al.Streamix()}
    by_kind = {"binary": ["__add__", "__sub__", "__mul__", "__lt__", "__eq__", "__rshift__", "__matmul__", "__pow__"],
               "rbinary": ["__radd__", "__rsub__", "__rpow__", "__rrshift__", "__ror__", "__rmatmul__"],
               "unary": ["__neg__", "__pos__", "__invert__"]}
    try:
        for i in range(count):
            A = type("X05A%d" % i, (object,), {})
            ASub = type("X05ASub%d" % i, (A,), {})
            Other = type("X05Other%d" % i, (object,), {})
            registered = rng.random() < 0.7
            ret = al.avoid_stream(A) if registered else A
            for _ in range(4):
                rel = rng.choice(["same", "sub", "other"])
                operand = {"same": A, "sub": ASub, "other": Other}[rel]()
                kind = rng.choice(["binary", "rbinary", "binary", "rbinary", "unary"])
                d = rng.choice(by_kind[kind])
                sname = rng.choice(sorted(selfs))
                me = selfs[sname]()
                fn = vars(type(me)).get(d) or getattr(type(me), d)
                result = call_result(Stream, fn, me, operand, kind)
                recs.append({"kind": "avoid", "c": {"registered": registered, "rel": rel, "kind": kind, "self": sname,
                                                    "dunder": d},
                             "obs": {"returned_same": ret is A, "result": result}})
        # the library's own registrations (lazy_filters.py:109, 715, 975, 1029)
        for cname, make in (("LinearFilter", lambda: al.LinearFilter([1], [1])), ("ZFilter", lambda: al.z ** -1),
                            ("CascadeFilter", lambda: al.CascadeFilter()), ("ParallelFilter", lambda: al.ParallelFilter())):
            for d, kind in (("__add__", "binary"), ("__rmul__", "rbinary"), ("__neg__", "unary")):
                me = Stream([1, 2])
                fn = vars(Stream)[d]
                result = call_result(Stream, fn, me, make(), kind)
                recs.append({"kind": "avoid", "c": {"registered": True, "rel": "same", "kind": kind, "self": "Stream",
                                                    "dunder": d, "library_class": cname},
                             "obs": {"returned_same": True, "result": result}})
    finally:
        Stream.__ignored_classes__ = saved
    return recs


def m3(ctx, al, nget, nclass, nnbr):
    rng = ctx.rng
    recs, info = [], []
    # the real table
    ops = list(al.OpMethod.get("all"))
    recs.append({"kind": "attrs", "ops": [op_attrs(o) for o in ops]})
    info.append({"what": "attributes of list(OpMethod.get('all'))"})
    # random queries
    repeats = 0
    for i in range(nget):
        pbad = rng.choice([0.0, 0.0, 0.02, 0.05, 0.15])
        K = rand_key(rng, 6, pbad)
        W = rand_without(rng, pbad / 2)
        out, err, facts = observe_get(al, freeze_key(K), freeze_key(W), rng.randrange(1000))
        names = [getattr(o, "name", "?") for o in out]
        if err["t"] == "TypeError":
            err = {"t": "TypeError", "msg": ""}
        recs.append({"kind": "get", "key": K, "wo": W, "out": names, "err": err})
        info.append({"key": key_text(freeze_key(K)), "without": key_text(freeze_key(W)), "names": names, "error": err})
        ntok = sum(len(e["s"].split()) if e["k"] == "str" else 1 for e in (K["items"] if K["k"] == "seq" else [K]))
        ctx.count(1, nontrivial_key=("m3get", i) if ntok >= 3 else None)
        if len(set(names)) != len(names):
            repeats += 1
        if not facts["generator"] or not facts["dead_after_end"]:
            ctx.violation("X05:get:generator-protocol", dict(info[-1], facts=facts))
    # random constructions
    for i in range(nclass):
        pbad = rng.choice([0.0, 0.0, 0.0, 0.03, 0.1])
        opsK = T("default") if rng.random() < 0.15 else rand_key(rng, 4, pbad)
        woK = T("default") if rng.random() < 0.5 else rand_without(rng, pbad / 2)
        x = rng.random()
        bld = [k for k in KINDS if rng.random() < (0.85 if x < 0.6 else 0.5)]
        pool = ["__%s__" % n for n in NAMES]
        nh = rng.choice([0, 0, 1, 2, 4, 8, 16])
        hand = sorted(set(rng.sample(pool, nh) + rng.sample(["__abs__", "__hash__", "helper", "__div__", "__init__"],
                                                            rng.choice([0, 0, 1, 2]))))
        inh = sorted(rng.sample(pool, rng.choice([0, 0, 0, 2, 5])))
        c = {"name": rng.choice(["Klass", "A", "Some_Class9", "X05"]), "ops": opsK, "wo": woK, "bld": bld,
             "hand": hand, "inh": inh}
        fc = dict(c, ops=freeze_key(opsK), wo=freeze_key(woK), bld=frozenset(bld), hand=frozenset(hand),
                  inh=frozenset(inh))
        obs = observe_class(al, fc, rng.randrange(1000))
        if obs["err"]["t"] == "TypeError" and not obs["err"]["msg"].startswith("Class '"):
            obs["err"] = {"t": "TypeError", "msg": ""}
        recs.append({"kind": "class", "c": c, "res": obs["res"], "err": obs["err"], "inst": obs["inst"],
                     "calls": obs["calls"], "kept": obs["kept"]})
        info.append({"case": class_text(fc), "observed": obs})
        ctx.count(1, nontrivial_key=("m3class", i) if obs["calls"] or obs["inst"] else None)
        if obs["stray"] or not obs["meta_ok"]:
            ctx.violation("X05:class:installed", info[-1])
    # the library's concrete classes
    for j, name in enumerate(LIB_CLASSES):
        recs.append(lib_record(al, name))
        info.append({"library_class": name, "record": recs[-1]})
        recs.append(libsub_record(al, name, j))
        info.append({"empty_subclass_of": name, "record": recs[-1]})
        ctx.count(2, nontrivial_key=("lib", name))
    # neighbours
    nbr, init_skipped = [], 0
    for what, fn in (("meta", meta_records), ("tostream", tostream_records), ("avoid", avoid_records)):
        try:
            got = fn(al, rng, nnbr)
        except Exception as ex:                                   # noqa: BLE001
            ctx.violation("X05:%s:raised" % what, {"exception": "%s: %s" % (type(ex).__name__, ex)})
            continue
        if what == "meta":
            got, init_skipped = got
        nbr += got
    for rr in nbr:
        recs.append(rr)
        info.append({"neighbour": rr})
        ctx.count(1)
    bad = tracecheck.run_records(ctx, "OpTableTrace", {}, recs, what="X05 recorded executions", chunk=1500)
    ctx.traces += len(recs) - len(bad)
    ctx.log("M3: %d records judged by TLC (%d queries, %d constructions, %d library classes, neighbours), %d rejected"
            % (len(recs), nget, nclass, len(LIB_CLASSES), len(bad)))
    ctx.sample({"recorded": info[1]})
    for i, clause in sorted(bad.items()):
        rec = recs[i - 1]
        what = rec["kind"]
        key = "X05:%s:%s" % ({"attrs": "table", "libsub": "lib-subclass"}.get(what, what), clause[0])
        ctx.violation(key, dict(info[i - 1], clause=clause[0]))
    # observations (never alarms)
    if repeats:
        ctx.log("note: %d recorded queries with overlapping values yield an operator more than once" % repeats)
    if init_skipped:
        ctx.log("note: lazy_compat.meta builds the class with metaclass.__new__ only: metaclass.__init__ did not run for "
                "%d of the classes built through meta() (it runs for their subclasses)" % init_skipped)
    unsub = [r["cls"] for r in recs if r["kind"] == "libsub" and r["res"] == "raised"]
    if unsub:
        ctx.log("note: `class Sub(%s): pass` raises TypeError (the binary dunders written by hand in the base class are "
                "not in the subclass namespace and the metaclass has no __binary__); the specification predicts it"
                % "|".join(unsub))
    if getattr(al.OpMethod.get, "__doc__", None) is None:
        ctx.log("note: OpMethod.get.__doc__ is None -- the string at the top of `get` is an expression "
                "(`\"\"\"...\"\"\" % (15, 35) if HAS_MATMUL else (14, 33)`), so the documented examples are not a docstring "
                "and are never run as doctests; the specification checks them as invariant DocExamples")


def check(ctx):
    al = common.import_audiolazy()
    ctx.rule = ("M2: every finished iteration / construction TLC enumerated is replayed on the real code; non-trivial = "
                "query of >= 2 values or with a `without` / construction whose declaration selects >= 1 operator; "
                "M3: seeded random queries (non-trivial = >= 3 values) and constructions judged by TLC")
    ctx.assumptions = ["Python 3 (HAS_MATMUL, no __div__ alias branch of __new__); whitespace inside query strings is "
                       "blank / tab / newline / carriage return",
                       "query values are strings, ints, functions of module operator, None, lists (unhashable); "
                       "iterables are ordered (no sets); the text of Python's own TypeError is not compared; an unknown "
                       "operator function is one whose __name__ is its dunder name without the underscores"]
    rows, reprs = m1_facts(ctx)
    if ctx.thorough:
        m2_get(ctx, al, "OpGetX05T", "OpGetX05T.cfg", rows, reprs)
        m2_class(ctx, al, "OpClassX05T", "OpClassX05T.cfg")
        m3(ctx, al, 6000, 3000, 60)
    else:
        m2_get(ctx, al, "OpGetX05Q", "OpGetX05Q.cfg", rows, reprs)
        m2_class(ctx, al, "OpClassX05Q", "OpClassX05Q.cfg")
        m3(ctx, al, 700, 400, 12)
    ctx.exhaustive = True
