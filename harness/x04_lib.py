"""X04 helpers: the value encodings shared by M2 (replay of TLC's dump) and M3 (records judged by TLC), and one
observer per case kind that runs the REAL audiolazy code on a case and returns what it showed in the shape of
the specification's result ("J-form": JSON-able mirror of the TLA+ values of PolyVal / MathVal).

J-form:  Rat <<n, d>> -> [n, d];  record -> dict;  sequence -> list;  set -> sorted list;
         polynomial of module Poly (function power -> Rat) -> [[power, [n, d]], ...] sorted by power.
"""
import cmath
import math
from collections import OrderedDict
from fractions import Fraction

F = Fraction
INF = float("inf")


class Bad(Exception):
    """an observation that cannot be expressed in the specification's value space (becomes a violation)"""


# ------------------------------------------------------------------------------------------------ numbers
def R(x):
    f = F(x)
    return [f.numerator, f.denominator]


def fr(j):
    return F(j[0], j[1])


def exact(x):
    """a coefficient the code returned -> Fraction (ints, Fractions and floats are exact); else Bad"""
    if isinstance(x, bool) or not isinstance(x, (int, float, Fraction)):
        raise Bad("%r is not a real number" % (x,))
    if isinstance(x, float) and (x != x or x in (INF, -INF)):
        raise Bad("%r is not finite" % (x,))
    return F(x)


def tyof(x):
    if isinstance(x, bool):
        return "bool"
    if isinstance(x, int):
        return "int"
    if isinstance(x, float):
        return "float"
    if isinstance(x, Fraction):
        return "frac"
    if isinstance(x, complex):
        return "complex"
    return type(x).__name__


def zobj(jz):
    """a fresh Python object for a zero value [v, ty]"""
    v = fr(jz["v"])
    if jz["ty"] == "int":
        return int(v)
    if jz["ty"] == "float":
        return float(v) + 0.0
    if jz["ty"] == "frac":
        return F(v)
    raise ValueError(jz)


def jzero(z):
    return {"v": R(exact(z)), "ty": tyof(z)}


ZFLOAT = {"v": [0, 1], "ty": "float"}


def pykey(jk, fl):
    k = fr(jk)
    if k.denominator == 1 and not fl:
        return int(k)
    return float(k)


def key_ok(k):
    """stored powers are ints when integer-valued and floats otherwise"""
    if isinstance(k, bool):
        return False
    if isinstance(k, int):
        return True
    return isinstance(k, float) and not k.is_integer()


def pycoef(jc, variant=0):
    c = fr(jc)
    if c.denominator == 1 and variant % 2 == 1:
        return int(c)
    return c


def pairs_of(P):
    """[[power, coef]] of a real Poly in creation order, powers as Rat"""
    out = []
    for k, v in P.terms(sort=False):
        if isinstance(k, bool) or not isinstance(k, (int, float)):
            raise Bad("power %r is not an int / float" % (k,))
        out.append([R(F(k)), R(exact(v))])
    return out


def ppairs(P):
    """J-form polynomial (integer powers, sorted) of a real Poly; a stored zero stays visible"""
    out = []
    for k, v in P.terms(sort=False):
        if isinstance(k, bool) or not isinstance(k, int):
            raise Bad("power %r is not an int" % (k,))
        out.append([k, R(exact(v))])
    return sorted(out)


def jres(fn):
    """[e, p, z] of a call that should return a Poly"""
    try:
        r = fn()
    except Bad:
        raise
    except Exception as ex:
        return {"e": type(ex).__name__, "p": [], "z": ZFLOAT}
    if type(r).__name__ != "Poly":
        raise Bad("result %r is not a Poly" % (r,))
    return {"e": "none", "p": ppairs(r), "z": jzero(r.zero)}


# ------------------------------------------------------------------------------------------------ building
def mk_obj(al, jo, variant=0):
    """a real Poly with exactly the store jo.d (creation order) and the zero jo.z"""
    d = OrderedDict()
    for jk, jc in jo["d"]:
        d[pykey(jk, fr(jk).denominator != 1)] = pycoef(jc, variant)
    P = al.Poly(d, zero=zobj(jo["z"]))
    if pairs_of(P) != [[k, c] for k, c in jo["d"]]:
        raise Bad("Poly(%r) does not store its dict as given: %r" % (d, pairs_of(P)))
    return P


def mk_pv(al, ja, variant=0, ints=False):
    """a real Poly for [p (integer powers), z]; variant picks dict order / dict class, ints plain-int coefficients"""
    items = [(k, pycoef(c, 1 if ints else 0)) for k, c in ja["p"]]
    if variant % 2:
        items.reverse()
    return al.Poly(OrderedDict(items) if variant % 4 >= 2 else dict(items), zero=zobj(ja["z"]))


def mk_operand(al, jb, variant=0, ints=False):
    if jb["k"] == "poly":
        return mk_pv(al, jb, variant, ints)
    c = fr(jb["v"])
    return int(c) if (c.denominator == 1 and ints) else c


def mk_data(al, data, variant):
    """the Python `data` argument of Poly(...) for a constructor case; returns (args, kwargs-free data object)"""
    form = data["form"]
    if form == "none":
        return None
    if form == "num":
        return pycoef(data["v"], variant)
    if form == "list":
        return [pycoef(c, variant) for c in data["s"]]
    if form == "dict":
        items = [(pykey(it["k"], it["fl"]), pycoef(it["c"], variant)) for it in data["ps"]]
        return OrderedDict(items) if variant % 4 >= 2 else dict(items)
    if form == "poly":
        return mk_obj(al, data["o"], variant)
    if form == "opaque":
        return {"tuple": (1, 2, 3), "generator": (i for i in [1, 2]), "str": "ab"}[data["what"]]
    raise ValueError(form)


def build_ctor(al, c, variant):
    data = mk_data(al, c["data"], variant)
    za = c["zarg"]
    if not za["given"]:
        if data is None and variant % 2:
            return al.Poly(), data
        return al.Poly(data), data
    z = zobj(za["z"])
    if variant % 2:
        return al.Poly(data, z), data
    return al.Poly(data, zero=z), data


# ------------------------------------------------------------------------------------------------ observers: Poly
PROBE = [[-1, 1], [0, 1], [1, 1], [2, 1], [3, 2], [5, 1]]          # = ProbeKeys of PolyVal.tla


def cell(P, el):
    return {"zero": el is P.zero, "v": R(exact(el))}


def show(P, variant=0):
    """what a real Poly shows, in the shape of PolyVal!Show (+ ktypes, callempty, getfloat)"""
    def terms(**kw):
        out = []
        for k, v in P.terms(**kw):
            out.append([R(F(k)), R(exact(v))])
        return out
    raw = pairs_of(P)
    sh = {"d": raw, "z": jzero(P.zero),
          "auto": terms(), "rauto": terms(reverse=True),
          "srt": terms(sort=True), "rsrt": terms(sort=True, reverse=True),
          "raw": terms(sort=False), "rraw": terms(sort=False, reverse=True),
          "len": len(P), "ispoly": P.is_polynomial(), "islaur": P.is_laurent(), "empty": len(P) == 0}
    try:
        o = P.order
        if isinstance(o, bool) or not isinstance(o, int):
            raise Bad("order %r is not an int" % (o,))
        sh["order"] = {"e": "none", "v": o}
    except AttributeError:
        sh["order"] = {"e": "AttributeError", "v": 0}
    try:
        sh["values"] = {"e": "none", "v": [cell(P, el) for el in (list(P.values()) if variant % 2 else tuple(P.values()))]}
    except AttributeError:
        sh["values"] = {"e": "AttributeError", "v": []}
    sh["get"] = [cell(P, P[pykey(k, variant % 2 == 1)]) for k in PROBE]
    sh["ktypes"] = all(key_ok(k) for k, _ in P.terms(sort=False))
    sh["callempty"] = (P(5) is P.zero and P(F(1, 2), horner=False) is P.zero) if len(P) == 0 else True
    return sh


def obs_ctor(al, c, variant):
    P, data = build_ctor(al, c, variant)
    if c["data"]["form"] == "opaque":
        return {"opaque": P[0] is data, "len": len(P), "ispoly": P.is_polynomial(), "islaur": P.is_laurent(),
                "order": P.order, "z": jzero(P.zero)}
    return show(P, variant)


BINOPS = {"add": lambda a, b: a + b, "sub": lambda a, b: a - b, "mul": lambda a, b: a * b,
          "radd": lambda a, b: b + a, "rsub": lambda a, b: b - a, "rmul": lambda a, b: b * a}


def obs_arith(al, c, variant):
    op = c["op"]
    if op == "compose":                         # value ** power with a negative power: Fractions only (int ** -n is a float)
        A = mk_pv(al, c["a"], variant)
        B = mk_pv(al, c["b"], variant // 2)
        return jres(lambda: A(B) if variant % 2 else A(B, horner=bool(variant % 4 // 2)))
    ints = (variant // 4) % 2 == 1              # + - * stay exact on plain ints
    A = mk_pv(al, c["a"], variant, ints)
    if op == "neg":
        return jres(lambda: -A)
    if op == "pos":
        return jres(lambda: +A)
    B = mk_operand(al, c["b"], variant // 2, ints or variant % 2 == 1)
    return jres(lambda: BINOPS[op](A, B))


def obs_div(al, c, variant):
    A = mk_pv(al, c["a"], variant)                # Fraction coefficients: int / int would leave exact arithmetic
    B = mk_operand(al, c["b"], variant // 2, ints=(c["b"]["k"] == "num" and variant % 2 == 1))
    if c["rev"]:
        return jres(lambda: B / A)
    return jres(lambda: A / B)


def obs_pow(al, c, variant):
    A = mk_pv(al, c["a"], variant)
    n = c["n"]
    if n["k"] == "int":
        return jres(lambda: A ** n["v"])
    # an exponent Poly carries plain ints ("other = other[0]" is then an int)
    E = al.Poly(dict((k, int(fr(v))) for k, v in n["p"]), zero=0)
    return jres(lambda: A ** E)


def obs_powf(al, c, variant):
    cf = fr(c["c"])
    e = fr(c["e"])
    P = al.Poly({c["k"]: (int(cf) if cf.denominator == 1 and variant % 2 else cf)}, zero=0)
    r = P ** float(e)
    ts = list(r.terms(sort=False))
    if len(ts) != 1:
        raise Bad("%r ** %r has %d terms" % (P, float(e), len(ts)))
    k, v = ts[0]
    return {"key": R(F(k)), "coef_float": float(v), "coef": R(F(v).limit_denominator(10 ** 6)), "float": isinstance(v, float),
            "ktype": key_ok(k)}


def obs_calc(al, c, variant):
    A = mk_pv(al, c["a"], variant)
    n = c["n"]
    return {"diffn": jres(lambda: A.diff(n)), "integ": jres(lambda: A.integrate()),
            "diff1": jres(lambda: A.diff()) if n == 1 else None}


def obs_eqnum(al, c, variant):
    ints = variant % 2 == 1
    A = mk_pv(al, c["a"], variant // 2, ints)
    B = mk_operand(al, c["b"], variant // 4, not ints)
    out = {"eq": bool(A == B), "ne": bool(A != B), "req": bool(B == A), "rne": bool(B != A)}
    if c["b"]["k"] == "poly":
        out["hashsame"] = hash(A) == hash(B)
    else:
        out["hashsame"] = False
        out["numhash"] = hash(mk_pv(al, c["a"], 0)) == hash(B)
    return out


def obs_scopy(al, c, variant):
    S = al.Stream(list(c["s"])) if variant % 2 == 0 else al.Stream(iter(list(c["s"])))
    P = al.Poly({1: S})
    if c["n"]:
        P[1].take(c["n"])
    N = P.copy() if c["how"] == "copy" else al.Poly(P)
    same = N[1] is P[1]
    new = N[1].take(c["m"]) if c["m"] else []
    rest = list(P[1])
    return {"new": list(new), "rest": rest, "same": same}


def obs_mutc(al, c, variant):
    O = mk_obj(al, c["o"], variant)
    za = c["zarg"]
    if variant % 2:
        N = O.copy(zero=zobj(za["z"])) if za["given"] else O.copy()
    else:
        N = al.Poly(O, zero=zobj(za["z"])) if za["given"] else al.Poly(O)
    it = c["it"]
    T = N if c["target"] == "new" else O
    T[pykey(it["k"], it["fl"])] = pycoef(it["c"], variant // 2)
    return {"orig": {"d": pairs_of(O), "z": jzero(O.zero)}, "new": {"d": pairs_of(N), "z": jzero(N.zero)},
            "distinct": N is not O,
            "ktypes": all(key_ok(k) for k, _ in list(O.terms(sort=False)) + list(N.terms(sort=False)))}


# ------------------------------------------------------------------------------------------------ lazy_math
def pynum(x):
    t = x["t"]
    if t == "int":
        return int(fr(x["v"]))
    if t == "float":
        return float(fr(x["v"]))
    if t == "frac":
        return fr(x["v"])
    if t == "bool":
        return bool(fr(x["v"]))
    if t == "complex":
        return complex(float(fr(x["re"])), float(fr(x["im"])))
    if t == "special":
        return {"inf": INF, "-inf": -INF, "nan": float("nan"), "-0.0": -0.0}[x["s"]]
    if t == "other":
        return {"str": "7", "none": None}[x["s"]]
    raise ValueError(x)


def pyarg(a):
    if "f" in a:
        v = pynum(a["x"])
        return 1 + v if a["f"] == "1+" else abs(v)
    return pynum(a)


LIBFN = {"math.log": math.log, "cmath.log": cmath.log, "math.log1p": math.log1p, "math.log10": math.log10,
         "math.log2": math.log2, "cmath.exp": cmath.exp, "cmath.phase": cmath.phase, "math.atan2": math.atan2,
         "builtins.abs": abs}


def same_value(a, b):
    """bit-for-bit the same Python number (type, value, sign of zero; nan equals nan)"""
    if type(a) is not type(b):
        return False
    return repr(a) == repr(b)


def argsig(args):
    """'x', 'x,b', '1+x', 'abs(x)' -- the shape of an argument list (trace records name candidates by it)"""
    names = []
    for i, a in enumerate(args):
        n = "xb"[i] if i < 2 else "?"
        if "f" in a:
            n = "1+x" if a["f"] == "1+" else "abs(x)"
        names.append(n)
    return ",".join(names)


def limbs_of(n):
    out = []
    while True:
        out.append(n % 10000)
        n //= 10000
        if n == 0:
            return out


def math_call(al, kind, c):
    """run the real lazy_math function of a case; returns ('value', v) or ('raise', class name)"""
    lm = al.lazy_math
    x = pynum(c["x"]) if "x" in c and isinstance(c["x"], dict) else None
    try:
        if kind == "log":
            if c["b"]["given"]:
                b = pynum(c["b"]["b"])
                v = lm.log(x, b) if c.get("_kw", 0) % 2 == 0 else lm.ln(x, base=b)
            else:
                v = lm.log(x) if c.get("_kw", 0) % 2 == 0 else lm.ln(x)
        elif kind in ("log10", "log2", "log1p", "sign", "cexp", "phase"):
            v = getattr(lm, kind)(x)
        elif kind == "fact":
            v = lm.factorial(x)
        elif kind == "abs":
            v = lm.absolute(x)
        elif kind == "db":
            v = (lm.dB10 if c["k"] == 10 else lm.dB20)(x)
        else:
            raise ValueError(kind)
    except Exception as ex:
        return "raise", type(ex).__name__
    return "value", v


def expected_of(out):
    """the Python value a specified result [r ...] stands for: ('value', v) | ('raise', cls) | ('big', int)"""
    r = out["r"]
    if r == "ninf":
        return "value", -INF
    if r == "raise":
        return "raise", out["e"]
    if r in ("call", "scaled"):
        try:
            v = LIBFN[out["fn"]](*[pyarg(a) for a in out["args"]])
        except Exception as ex:
            return "raise", type(ex).__name__
        return "value", (out["k"] * v if r == "scaled" else v)
    if r == "exact":
        v = fr(out["v"])
        return "value", {"int": lambda: int(v), "float": lambda: float(v), "frac": lambda: F(v),
                         "bool": lambda: bool(v)}[out["t"]]()
    if r == "big":
        n = 0
        for limb in reversed(out["limbs"]):
            n = n * 10000 + limb
        return "value", n
    raise ValueError(out)


def ex_value(ex):
    """the exact value an `ex` annotation stands for"""
    v = fr(ex["v"])
    if ex["t"] == "float":
        return float(v)
    if ex["t"] == "complex":
        return complex(float(v), 0.0)
    if ex["t"] == "pi":
        return float(v) * math.pi if v != 0 else 0.0
    raise ValueError(ex)


# candidate library calls a recorded lazy_math result is matched against (M3): name -> function of (x, b)
CANDIDATES = {
    "math.log(x)": lambda x, b: math.log(x), "cmath.log(x)": lambda x, b: cmath.log(x),
    "math.log(x,b)": lambda x, b: math.log(x, b), "cmath.log(x,b)": lambda x, b: cmath.log(x, b),
    "math.log10(x)": lambda x, b: math.log10(x), "math.log2(x)": lambda x, b: math.log2(x),
    "math.log1p(x)": lambda x, b: math.log1p(x), "cmath.log(1+x)": lambda x, b: cmath.log(1 + x),
    "math.log(1+x)": lambda x, b: math.log(1 + x),
    "10*math.log10(abs(x))": lambda x, b: 10 * math.log10(abs(x)), "20*math.log10(abs(x))": lambda x, b: 20 * math.log10(abs(x)),
    "10*math.log10(x)": lambda x, b: 10 * math.log10(x), "20*math.log10(x)": lambda x, b: 20 * math.log10(x),
    "cmath.exp(x)": lambda x, b: cmath.exp(x), "math.exp(x)": lambda x, b: math.exp(x),
    "cmath.phase(x)": lambda x, b: cmath.phase(x), "builtins.abs(x)": lambda x, b: abs(x),
    "math.fabs(x)": lambda x, b: math.fabs(x),
}


def matches(v, x, b, raised=None):
    """names of the candidate calls that give bit for bit the value v (or, for raised = class name, raise that class:
    listed as name!class)"""
    out = []
    for name, fn in sorted(CANDIDATES.items()):
        if ",b)" in name and b is None:
            continue
        try:
            w = fn(x, b)
        except Exception as ex:
            if raised is not None and type(ex).__name__ == raised:
                out.append(name + "!" + raised)
            continue
        if raised is None and same_value(w, v):
            out.append(name)
    return out
