"""Helpers shared by drive_c10.py and drive_c11.py (spec/dsp/Lpc.tla, spec/trace/LpcTrace.tla)."""
import math
from fractions import Fraction

import tlc

TOL = 1e-9


# ---- spec values <-> Python ------------------------------------------------------------------
def fr(p):
    """spec rational <<n, d>> -> Fraction"""
    return Fraction(p[0], p[1])


def frs(seq):
    return [fr(p) for p in seq]


def rat(x):
    f = Fraction(x)
    return [f.numerator, f.denominator]


def rats(xs):
    return [rat(x) for x in xs]


def is_dyadic(f):
    d = Fraction(f).denominator
    return d & (d - 1) == 0


def exactly(v):
    """A number returned by the library as an exact Fraction (ints, Fractions, floats are all exact
    rationals); None for anything else (complex, nan, inf, objects)."""
    if isinstance(v, bool):
        return None
    if isinstance(v, (int, Fraction)):
        return Fraction(v)
    if isinstance(v, float):
        if math.isnan(v) or math.isinf(v):
            return None
        return Fraction(v)
    return None


def near(v, exact):
    """DESIGN 2.4 float rule: |code - exact| <= 1e-9 * (1 + |exact|), evaluated in exact arithmetic."""
    e = exactly(v)
    if e is None:
        return False
    return abs(e - exact) <= Fraction(1, 10 ** 9) * (1 + abs(exact))


def near_seq(vs, exacts):
    """Coefficient lists: the library drops trailing zero coefficients, so the shorter one is padded."""
    n = max(len(vs), len(exacts))
    vs = list(vs) + [0] * (n - len(vs))
    exacts = list(exacts) + [Fraction(0)] * (n - len(exacts))
    return all(near(v, e) for v, e in zip(vs, exacts))


def route_values(fracs, route):
    """The same exact numbers as int / Fraction / float objects; None when the route cannot carry them."""
    if route == "frac":
        return [Fraction(f) for f in fracs]
    if route == "int":
        if all(f.denominator == 1 for f in fracs):
            return [int(f) for f in fracs]
        return None
    if route == "float":
        if all(is_dyadic(f) for f in fracs):
            return [float(f) for f in fracs]
        return None
    if route == "mixed":            # ints where integral, Fractions elsewhere
        return [int(f) if f.denominator == 1 else f for f in fracs]
    raise ValueError(route)


def show(vs):
    return [str(v) if isinstance(v, Fraction) else repr(v) for v in vs]


def case_key(c):
    k = c["kind"]
    if k == "ld":
        return "ld r=[%s] order=%d" % (",".join(str(fr(p)) for p in c["r"]), c["order"])
    if k in ("ka", "kc"):
        return "%s x=[%s] order=%d" % (k, ",".join(str(fr(p)) for p in c["x"]), c["order"])
    if k in ("kl", "ks"):
        return "%s ks=[%s]" % (k, ",".join(str(fr(p)) for p in c["ks"]))
    return "st roots=[%s] cpairs=[%s] gain=%s" % (
        ",".join(str(fr(p)) for p in c["roots"]),
        ",".join("%s+-%sj" % (fr(p[0]), fr(p[1])) for p in c["cpairs"]), fr(c["gain"]))


# ---- observing the real functions ----------------------------------------------------------------
def call(fn, *a, **k):
    """(exception name or 'none', result)"""
    try:
        return "none", fn(*a, **k)
    except Exception as ex:                       # noqa: the exception class IS the observation
        return type(ex).__name__, None


def parcor_observe(al, filt, limit=None):
    """Iterate parcor(filt) by hand: (coefficients yielded before the end / the exception, exception name)."""
    out = []
    if limit == 0:
        return out, "none"
    try:
        it = al.parcor(filt)
        for k in it:
            out.append(k)
            if limit is not None and len(out) >= limit:
                return out, "none"
        return out, "none"
    except Exception as ex:                       # noqa
        return out, type(ex).__name__


# ---- fixed-point logging of floats for LpcTrace ---------------------------------------------------
W = 32768


def shift_for(values):
    """Largest s <= 30 such that every |v| * 2^s < 2^31 (so the high limb stays below 2^16)."""
    m = max([abs(v) for v in values] + [Fraction(0)])
    s = 30
    while s > 0 and m * (1 << s) >= (1 << 31):
        s -= 1
    return s


def fixed(v, s):
    """Exact rational value -> [h, l] with round(v * 2^s) = h * 2^15 + l, 0 <= l < 2^15.
    Values that do not fit are clamped (they are then far from anything the specification accepts)."""
    n = round(v * (1 << s))
    lim = (1 << 31) - 1
    n = max(-lim, min(lim, n))
    h, l = divmod(n, W)
    return [h, l]


def fixed_list(vals):
    """list of library numbers -> (shift, [[h, l], ...]) or None when some value is not a finite number"""
    ex = [exactly(v) for v in vals]
    if any(e is None for e in ex):
        return None
    s = shift_for(ex)
    return s, [fixed(e, s) for e in ex]


# ---- exact helpers used ONLY to construct inputs and to screen magnitudes (never as an oracle) -------
def step_up(ks):
    a = [Fraction(1)]
    for k in ks:
        a = a + [Fraction(0)]
        n = len(a)
        a = [a[i] + k * a[n - 1 - i] for i in range(n)]
    return a


def r_from_ks(ks):
    r = [Fraction(1)]
    e = Fraction(1)
    for m, k in enumerate(ks, 1):
        a = step_up(ks[:m - 1])
        r.append(-k * e - sum(a[j] * r[m - j] for j in range(1, m)))
        e *= 1 - k * k
    return r


def poly_mul(a, b):
    out = [Fraction(0)] * (len(a) + len(b) - 1)
    for i, x in enumerate(a):
        for j, y in enumerate(b):
            out[i + j] += x * y
    return out


def den_from_roots(roots, cpairs, gain):
    d = [Fraction(1)]
    for ro in roots:
        d = poly_mul(d, [Fraction(1), -ro])
    for re, im in cpairs:
        d = poly_mul(d, [Fraction(1), -2 * re, re * re + im * im])
    return [gain * x for x in d]


def bits(f):
    f = Fraction(f)
    return max(abs(f.numerator).bit_length(), f.denominator.bit_length())


def exact_levinson(r, order):
    """Exact Levinson on Fractions: (a, [E_0..E_p], ks) or None when some E_m = 0.  Screening only."""
    r = list(r) + [Fraction(0)] * max(0, order + 1 - len(r))
    a = [Fraction(1)]
    e = r[0]
    es = [e]
    ks = []
    for m in range(1, order + 1):
        if e == 0:
            return None
        num = sum(a[j] * r[m - j] for j in range(m))
        k = -num / e
        a = a + [Fraction(0)]
        a = [a[i] + k * a[m - i] for i in range(m + 1)]
        e = e * (1 - k * k)
        es.append(e)
        ks.append(k)
    return a, es, ks


def solve_gram(c):
    """Exact solution of sum_j a_j c[i][j] = 0 (i = 1..p), a_0 = 1; pivots returned for conditioning screen."""
    p = len(c) - 1
    mat = [[Fraction(c[i][j]) for j in range(1, p + 1)] + [-Fraction(c[i][0])] for i in range(1, p + 1)]
    piv = []
    for col in range(p):
        if mat[col][col] == 0:
            return None                              # (no pivoting: leading minors are what kcovar needs)
        piv.append(mat[col][col])
        for row in range(col + 1, p):
            fct = mat[row][col] / mat[col][col]
            mat[row] = [x - fct * y for x, y in zip(mat[row], mat[col])]
    a = [Fraction(0)] * p
    for row in range(p - 1, -1, -1):
        a[row] = (mat[row][p] - sum(mat[row][j] * a[j] for j in range(row + 1, p))) / mat[row][row]
    return [Fraction(1)] + a, piv


def require_some(n, what):
    if n == 0:
        raise tlc.MachineryError("%s: nothing was exercised (vacuous)" % what)
