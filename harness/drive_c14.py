"""C14 - window functions obey their periodic/symmetric, symmetry and overlap contracts.

M1  TLC: spec/dsp/Windows.tla on the WindowsC14 grid (every window model x both code templates x sizes
    1..S x alphas): the template machine equals the documented closed forms (exact trigonometric forms,
    spec/lib/TrigForm.tla), length, periodic-is-prefix-of-symmetric, symmetry, wsymm.X(1) = [1], range,
    constant hop-shifted sums.  spec/dsp/WindowsReg.tla: the registration loop of the two strategy
    dictionaries satisfies the cross-reference clause.
M2  spec -> code: every state TLC reached is replayed: the real window[X] / wsymm[X] reached through every
    alias and attribute path the registry model lists is called with the case's size/alpha and each
    returned sample is compared with the form TLC exported (a rational wherever the closed form is
    rational, else the exported combination of cosines evaluated with libm).  The final registry state
    is resolved on the real objects by attribute path and compared as identities.
M3  code -> spec: the real functions are run on sizes up to 128 (thorough: every size 1..128 and some up
    to 400) and random alphas; the lists (float.hex strings and 2^-20 fixed-point integers) and the
    projection of the two real dictionaries onto WindowsReg's variables are judged by TLC
    (spec/trace/WindowsTrace.tla: length, range, exact prefix, symmetry, wsymm.X(1), constant overlap sums,
    closed form wherever it is rational, and WindowsReg's own invariants on the observed registry).
"""
import math
import os
from fractions import Fraction

import common
import tlaval
import tlc
import tracecheck

ADFLT = (0, 0)
FX = 1 << 20


def form_value(f):
    """Exported trigonometric form -> (exact Fraction or None, float value)."""
    if not f:                       # << >> : the form 0
        return Fraction(0), 0.0
    items = f.items() if isinstance(f, dict) else None
    if items is None:
        raise tlc.MachineryError("unexpected form %r" % (f,))
    exact = Fraction(0)
    val = 0.0
    const = True
    for ang, coef in items:
        c = Fraction(coef[0], coef[1])
        if tuple(ang) == (0, 1):
            exact += c
            val += float(c)
        else:
            const = False
            val += float(c) * math.cos(2.0 * math.pi * ang[0] / ang[1])
    return (exact if const else None), val


def alpha_args(alpha, variant):
    """How the case's alpha is passed to the real function."""
    alpha = tuple(alpha)
    if alpha == ADFLT:
        return (), {}
    if alpha == (715, 4652):
        a = 2.0 * 1430 / 18608            # the value the docstring tells the user to pass
    elif alpha[1] == 1:
        a = alpha[0] if variant % 2 else float(alpha[0])
    else:
        a = alpha[0] / alpha[1]
    return ((a,), {}) if variant % 2 == 0 else ((), {"alpha": a})


def routes(al, dictname, name):
    """Every attribute path the statement mentions that must lead to dictname[name]."""
    w, s = al.window, al.wsymm
    d, other = (w, s) if dictname == "window" else (s, w)
    me, oth = ("periodic", "symm") if dictname == "window" else ("symm", "periodic")
    return [
        ("%s[%r]" % (dictname, name), lambda: d[name]),
        ("%s.%s" % (dictname, name), lambda: getattr(d, name)),
        ("%s.%s.%s" % (dictname, me, name), lambda: getattr(getattr(d, me), name)),
        ("%s.%s[%r]" % (("wsymm" if dictname == "window" else "window"), me, name),
         lambda: getattr(other, me)[name]),
        ("%s[%r].%s" % (("wsymm" if dictname == "window" else "window"), name, me),
         lambda: getattr(other[name], me)),
        ("%s[%r].%s" % (dictname, name, me), lambda: getattr(d[name], me)),
    ]


def registry(ctx):
    """M1 + dump of the registration model; returns its final state."""
    d = tlc.scratch_dir("c14reg")
    dump = os.path.join(d, "states")
    r = tlc.require_ok(tlc.run("WindowsReg", "WindowsReg.cfg", dump=dump), "WindowsReg",
                       need_actions=("Register", "Share", "Link"))
    ctx.add_tlc(r, "WindowsReg registration loop satisfies the cross-reference clause")
    states = list(tlaval.read_dump(dump + ".dump"))
    final = [s for s in states if s["i"] == max(x["i"] for x in states)]
    if len(final) != 1:
        raise tlc.MachineryError("WindowsReg: %d final states" % len(final))
    return final[0], len(states)


def m2_registry(ctx, al, st):
    """The final registry state resolved on the real objects, identities compared."""
    dicts = {"window": al.window, "wsymm": al.wsymm}
    real = {}           # (dict, name) -> object
    for dn, names in st["reg"].items():
        for name, strat in names.items():
            ctx.count(1, nontrivial_key=("xref", dn, name))
            try:
                obj = dicts[dn][name]
            except KeyError:
                ctx.violation("C14:%s-alias-missing" % dn,
                              {"expr": "%s[%r]" % (dn, name), "observed": "KeyError",
                               "expected": "the strategy %s.%s (spec WindowsReg, final state)" % tuple(strat)})
                continue
            real[(dn, name)] = obj
            if getattr(dicts[dn], name, None) is not obj:
                ctx.violation("C14:xref-attribute", {"expr": "%s.%s is %s[%r]" % (dn, name, dn, name),
                                                     "observed": False})
    keys = sorted(real)
    for a in keys:
        for b in keys:
            same_spec = tuple(st["reg"][a[0]][a[1]]) == tuple(st["reg"][b[0]][b[1]])
            ctx.count(1)
            if same_spec != (real[a] is real[b]):
                ctx.violation("C14:xref-identity",
                              {"expr": "%s[%r] is %s[%r]" % (a + b), "expected": same_spec,
                               "observed": real[a] is real[b]})
    byid = {}
    for k in keys:
        byid.setdefault(tuple(st["reg"][k[0]][k[1]]), real[k])
    for strat, lk in st["link"].items():
        obj = byid.get(tuple(strat))
        if obj is None:
            continue
        for attr in ("periodic", "symm"):
            want = byid.get(tuple(lk[attr]))
            ctx.count(1, nontrivial_key=("link", tuple(strat), attr))
            if want is None or getattr(obj, attr, None) is not want:
                ctx.violation("C14:xref-link", {"expr": "%s.%s.%s is %s.%s" % (tuple(strat) + (attr,) + tuple(lk[attr])),
                                                "observed": False})
    for dn, attrs in st["dlink"].items():
        for attr, target in attrs.items():
            ctx.count(1)
            if getattr(dicts[dn], attr, None) is not dicts[target]:
                ctx.violation("C14:xref-dict", {"expr": "%s.%s is %s" % (dn, attr, target), "observed": False})
    ctx.traces += 1
    ctx.sample({"registry_final_state": {dn: {n: ".".join(s) for n, s in names.items()}
                                         for dn, names in st["reg"].items()}})


def close(obs, exact, val):
    ref = float(exact) if exact is not None else val
    return isinstance(obs, float) and abs(obs - ref) <= 1e-9 * (1 + abs(ref))


def m2_samples(ctx, al, cfg, aliases):
    d = tlc.scratch_dir("c14")
    dump = os.path.join(d, "states")
    r = tlc.require_ok(tlc.run("WindowsC14", cfg, dump=dump), "WindowsC14", need_actions=("Call", "Loop", "Return"))
    ctx.add_tlc(r, "Windows template machine == documented closed forms + relational contracts")
    cache = {}
    nstates = 0
    variant = 0
    for st in tlaval.read_dump(dump + ".dump"):
        nstates += 1
        case = st["case"]
        sname, kind, size, alpha = case["name"], case["kind"], case["size"], tuple(case["alpha"])
        dn = "window" if kind == "periodic" else "wsymm"
        key = (sname, kind, size, alpha)
        final = st["pc"] == "ret"
        exp = [form_value(f) for f in st["out"]]
        if not final:
            # an intermediate state of the list comprehension: its `out` must be a prefix of what the
            # real call returns (taken from one route, cached)
            if key not in cache:
                try:
                    a, kw = alpha_args(alpha, 0)
                    cache[key] = getattr(al, dn)[sname](size, *a, **kw)
                except Exception as ex:      # reported on the final state
                    cache[key] = None
            got = cache[key]
            ctx.count(1)
            if got is not None and not all(close(o, e, v) for o, (e, v) in zip(got, exp)):
                ctx.violation("C14:closed-form:%s.%s" % (dn, sname),
                              {"call": "%s.%s(%d)" % (dn, sname, size), "alpha": alpha, "state": "loop n=%d" % st["n"],
                               "expected": [v for _, v in exp], "observed": got[:len(exp)]})
            continue
        for name in aliases[sname]:
            for rname, get in routes(al, dn, name):
                variant += 1
                a, kw = alpha_args(alpha, variant)
                call = "%s(%s)" % (rname, ", ".join([str(size)] + [repr(x) for x in a] +
                                                   ["%s=%r" % kv for kv in kw.items()]))
                ctx.count(1, nontrivial_key=key if size >= 3 else None)
                try:
                    fn = get()
                except (KeyError, AttributeError) as ex:
                    if name not in [k for t in al.wsymm.keys() for k in t]:
                        vk = "C14:wsymm-alias-missing"
                    elif name not in [k for t in al.window.keys() for k in t]:
                        vk = "C14:window-alias-missing"
                    else:
                        vk = "C14:xref-route"
                    ctx.violation(vk,
                                  {"expr": rname, "observed": type(ex).__name__ + ": " + str(ex)})
                    continue
                try:
                    got = fn(size, *a, **kw)
                except Exception as ex:
                    ctx.violation("C14:raises:%s.%s" % (dn, sname), {"call": call, "observed": repr(ex)})
                    continue
                if not isinstance(got, list) or len(got) != len(exp):
                    ctx.violation("C14:length:%s.%s" % (dn, sname),
                                  {"call": call, "expected_len": len(exp), "observed": repr(got)[:300]})
                    continue
                bad = [k for k, (o, (e, v)) in enumerate(zip(got, exp)) if not close(o, e, v)]
                if bad:
                    rational = any(exp[k][0] is not None for k in bad)
                    ctx.violation("C14:closed-form%s:%s.%s" % ("" if rational else "-libm", dn, sname),
                                  {"call": call, "index": bad[:8],
                                   "expected": [str(exp[k][0]) if exp[k][0] is not None else exp[k][1] for k in bad[:8]],
                                   "observed": [got[k] for k in bad[:8]]})
                if nstates % 997 == 0 and rname.endswith("]"):
                    ctx.sample({"call": call, "spec": [str(e) if e is not None else v for e, v in exp][:6],
                                "code": got[:6]})
                # the caller owns the list it got: whatever it does to it must not show in any later call
                # (every later route / alias / state compares its own fresh result with the specification)
                for k in range(len(got)):
                    got[k] = -7.0
                got.extend([-7.0, -7.0])
    if nstates != r.distinct:
        raise tlc.MachineryError("dump has %d states, TLC reported %d" % (nstates, r.distinct))
    ctx.traces += nstates
    ctx.log("M2: %d spec states replayed" % nstates)


# ---------------------------------------------------------------------------------------------------
def project_dicts(al):
    """Projection of the two real dictionaries onto WindowsReg's variables (labels stand for objects)."""
    labels = {}

    def lab(o):
        if id(o) not in labels:
            labels[id(o)] = ("f%d" % len(labels), o)
        return labels[id(o)][0]

    dicts = {"window": al.window, "wsymm": al.wsymm}
    reg = {}
    for dn, dd in dicts.items():
        reg[dn] = {}
        for names in dd.keys():
            for name in names:
                reg[dn][name] = lab(dd[name])
    link = {}
    todo = list(labels.values())
    while todo:
        l, o = todo.pop()
        if l in link:
            continue
        ent = {}
        for attr in ("periodic", "symm"):
            t = getattr(o, attr, None)
            if t is None:
                ent[attr] = "none"
            else:
                known = id(t) in labels
                ent[attr] = lab(t)
                if not known:
                    todo.append(labels[id(t)])
        link[l] = ent
    link.setdefault("none", {"periodic": "none", "symm": "none"})
    names = {id(v): k for k, v in dicts.items()}
    dlink = {dn: {attr: names.get(id(getattr(dd, attr, None)), "other") for attr in ("symm", "periodic")}
             for dn, dd in dicts.items()}
    return {"kind": "xref", "reg": reg, "link": link, "dlink": dlink}


def fx(v):
    return int(round(v * FX))


def hx(v):
    return v.hex() if isinstance(v, float) else repr(v)


def record(al, name, size, alpha, aobj):
    """Observe one (name, size, alpha).  Samples of the periodic window must be floats (the statement puts
    them in [0, 1]); the symmetric lists are logged as they come: a sample that is a complex number (the
    float sin(pi*n/size) can be -3e-16 at the last index, and a negative float to a fractional power is
    complex in Python 3) is logged by its real and imaginary parts and judged by the symmetry clause."""
    a = () if alpha == ADFLT else (aobj,)
    per = al.window[name](size, *a)
    sym = al.wsymm[name](size, *a)
    sym1 = al.wsymm[name](size + 1, *a)
    one = al.wsymm[name](1, *a)
    if not all(isinstance(v, float) and abs(v) < 1000 for v in per):
        return None, {"call": "window.%s(%d%s)" % (name, size, "".join(", %r" % x for x in a)),
                      "observed": repr(per)[:300]}
    odd = [v for v in list(sym) + list(sym1) + list(one) if not isinstance(v, (float, complex)) or abs(v) > 1000]
    if odd:
        return None, {"call": "wsymm.%s(%d%s)" % (name, size, "".join(", %r" % x for x in a)),
                      "observed": repr(odd)[:300]}
    return {"kind": "win", "name": name, "size": size, "alpha": list(alpha),
            "perfx": [fx(v) for v in per], "perhex": [hx(v) for v in per],
            "symfx": [fx(v.real) for v in sym], "symim": [fx(v.imag) for v in sym],
            "sym1hex": [hx(v) for v in sym1], "one": [hx(v) for v in one],
            "complex": sum(1 for v in sym if isinstance(v, complex))}, None


CLAUSE_KEY = {"length": "length", "range": "range", "prefix": "prefix", "symmetric": "symmetric",
              "one": "symm-of-1", "cola": "cola", "closed-periodic": "closed-form", "closed-symm": "closed-form"}


def m3(ctx, al, names, sizes_of, nalpha):
    rng = ctx.rng
    recs, meta, ncomplex = [], [], []
    xr = project_dicts(al)
    recs.append(xr)
    meta.append({"what": "projection of window / wsymm", "reg": xr["reg"]})
    real_sym = set(k for t in al.wsymm.keys() for k in t)
    for name in sorted(names):
        if name not in real_sym:
            continue            # reported by the xref record / M2; nothing can be recorded for it
        entry = names[name]
        for size in sizes_of(name):
            alphas = [(ADFLT, None)]
            if entry == "blackman":
                # alphas in the range where the documented formula stays in [0, 1]: 0 <= alpha <= 1/4
                for _ in range(nalpha):
                    k = rng.randint(0, 16)
                    alphas.append((tuple(tlrat(Fraction(k, 64))), k / 64.0))
            elif entry == "cos":
                # alpha = 0 or alpha >= 1/2 (see ctx.assumptions)
                for _ in range(nalpha):
                    k = rng.choice([0, 2, 3, 4, 5, 6, 8, 10, 12, 16])
                    f = Fraction(k, 4)
                    alphas.append((tuple(tlrat(f)), int(f) if f.denominator == 1 and rng.random() < .5 else float(f)))
            for alpha, aobj in alphas:
                info = {"name": name, "size": size, "alpha": list(alpha)}
                try:
                    rec, err = record(al, name, size, alpha, aobj)
                except Exception as ex:
                    ctx.violation("C14:raises:%s" % entry, dict(info, observed=repr(ex),
                                                               call="window/wsymm.%s(%d | %d | 1)" % (name, size, size + 1)))
                    continue
                if rec is None:
                    ctx.violation("C14:range:%s" % entry, dict(info, why="samples are not floats", **err))
                    continue
                if rec["complex"]:
                    ncomplex.append(info)
                recs.append(rec)
                meta.append(info)
                ctx.count(1, nontrivial_key=("m3", name, size, alpha) if size >= 3 else None)
    bad = tracecheck.run_records(ctx, "WindowsTrace", {"Cases": "{}", "ShareAllNames": "TRUE"}, recs,
                                 what="C14 recorded windows", chunk=150)
    ctx.traces += len(recs) - len(bad)
    ctx.log("M3: %d records judged by TLC, %d rejected" % (len(recs), len(bad)))
    if ncomplex:
        ctx.log("note (outside the statement): %d symmetric lists end with a complex sample of tiny magnitude, "
                "e.g. wsymm.%s(%d, alpha=%s/%s)" % ((len(ncomplex), ncomplex[0]["name"], ncomplex[0]["size"])
                                                  + tuple(ncomplex[0]["alpha"])))
    ctx.sample({"recorded": dict(meta[len(meta) // 2], perfx=recs[len(meta) // 2].get("perfx", [])[:5])})
    for i, info in sorted(bad.items()):
        m = meta[i - 1]
        if recs[i - 1]["kind"] == "xref":
            missing = {dn: sorted(set(names) - set(m["reg"][dn])) for dn in ("window", "wsymm")}
            if info[0] in ("AliasesShare", "strategy-missing") and any(missing.values()):
                for dn in missing:
                    if missing[dn]:
                        ctx.violation("C14:%s-alias-missing" % dn, {"clause": info[0], "missing": missing[dn]})
            else:
                ctx.violation("C14:xref-%s" % info[0], {"clause": info[0], "reg": m["reg"]})
        else:
            ctx.violation("C14:%s:%s" % (CLAUSE_KEY.get(info[0], info[0]), names[m["name"]]),
                          dict(m, clause=info[0],
                               call="window.%s / wsymm.%s" % (m["name"], m["name"])))


def tlrat(f):
    return [f.numerator, f.denominator]


def check(ctx):
    al = common.import_audiolazy()
    ctx.rule = ("M2: every state of the template machine replayed through every alias x attribute path; "
                "non-trivial = size >= 3; M3: one record per (name, size, alpha), sizes up to 128/400")
    ctx.assumptions = [
        "blackman alpha in [0, 1/4] (w = (1-c)(1/2 - alpha(1+c)), c = cos: the documented formula leaves [0,1] "
        "outside that range); cos alpha >= 0",
        "closed forms compared as rationals where the form is rational; elsewhere the exported combination of "
        "cosines is evaluated with libm (tolerance 1e-9)",
        "relational contracts on recorded samples use 2^-20 fixed point: symmetry within 1 unit, overlap sums "
        "within one unit per summand (module Fix)",
        "cos alpha = 0 or alpha >= 1/2: the float sin(pi) is 1.2e-16 instead of 0, so the last sample of "
        "wsymm.cos(size, alpha) is (1.2e-16)**alpha instead of 0 -- below the fixed-point unit for alpha >= 0.38, "
        "1.5e-4 for alpha = 1/4 (conditioning of x**alpha at 0, not a property of the template)",
        "sizes >= 1; natural exponents for the closed form of cos(alpha)"]
    final, nreg = registry(ctx)
    m2_registry(ctx, al, final)
    names = {n: s[1] for n, s in final["reg"]["window"].items()}          # every name -> sname
    aliases = {}
    for n, s in sorted(names.items()):
        aliases.setdefault(s, []).append(n)
    rng = ctx.rng
    if ctx.thorough:
        m2_samples(ctx, al, "WindowsC14_thorough.cfg", aliases)
        extra = sorted(rng.sample(range(129, 401), 12))
        m3(ctx, al, names, lambda name: list(range(1, 129)) + extra, 2)
    else:
        m2_samples(ctx, al, "WindowsC14_quick.cfg", aliases)
        pick = sorted(set([1, 2, 3, 4, 6, 8, 12] + rng.sample(range(5, 129), 14)))
        m3(ctx, al, names, lambda name: pick, 1)
    ctx.exhaustive = True
