"""Deterministic scheduler + shim `threading` + fake PyAudio backend for C17.

Every library thread is a real OS thread, but exactly one holds the baton.  At every synchronisation
operation (Lock acquire/release, Event set/clear/is_set/wait, Thread start/join/begin/end, every backend
call) the running thread *announces* the operation and parks; the controller picks one of the threads
whose announced operation is enabled, which then performs the operation and runs on to its next
announcement.  "Nobody enabled, somebody unfinished" is a deadlock.

The unmodified /repo/audiolazy/lazy_io.py is executed under a second module name with this module's
`ShimThreading` as its `threading` and `FakePyAudio` / `FakePortAudio` as `pyaudio` / `_portaudio`.
"""
import importlib.util
import os
import sys
import threading as _real
import types


class SchedAbort(BaseException):
    """Raised inside managed threads to unwind them when a run is abandoned."""


class Deadlock(Exception):
    pass


class TState(object):
    def __init__(self, tid, name):
        self.tid = tid
        self.name = name
        self.pending = None      # announced operation (kind, obj)
        self.done = False
        self.exc = None


class Sched(object):
    def __init__(self, choose, max_steps=4000, on_step=None, line_file=None):
        """choose(sched, enabled: list of TState) -> TState ; on_step(sched, tstate, op) after each step.
        line_file: when given, every source line of that file executed by a managed thread is a scheduling
        point too (sys.settrace), which reaches the interleavings between unsynchronised attribute accesses."""
        self.line_file = line_file
        self.choose = choose
        self.max_steps = max_steps
        self.on_step = on_step
        self.mu = _real.Condition()
        self.threads = {}
        self.order = []
        self.running = None
        self.aborting = False
        self.steps = 0
        self.events = []
        self.deadlock = None
        self.os_threads = []
        self._local = _real.local()

    # ---- called by managed threads ------------------------------------------------------------
    def me(self):
        return getattr(self._local, "ts", None)

    def announce(self, kind, obj=None):
        """Park until the controller selects this thread for operation (kind, obj)."""
        ts = self.me()
        if ts is None or self.aborting:
            if self.aborting and ts is not None:
                raise SchedAbort()
            return
        with self.mu:
            ts.pending = (kind, obj)
            if self.running == ts.tid:
                self.running = None
            self.mu.notify_all()
            while self.running != ts.tid:
                if self.aborting:
                    ts.pending = None
                    raise SchedAbort()
                self.mu.wait()
            ts.pending = None

    def spawn(self, name, fn):
        """Create a managed thread; it parks at its ('begin') announcement before running fn."""
        tid = len(self.order)
        ts = TState(tid, name)
        self.threads[tid] = ts
        self.order.append(ts)

        def body():
            self._local.ts = ts
            try:
                self.announce("begin", ts)
                if self.line_file:
                    sys.settrace(self._global_trace)
                try:
                    fn()
                except SchedAbort:
                    raise
                except BaseException as ex:      # the thread's function raised: remember why; the thread
                    ts.exc = ex                  # still ends through its "end" operation like any other
                # (no sys.settrace(None) here: on CPython 3.12 switching tracing off in one thread can make the
                #  other traced threads lose line events for a while; the thread is about to end anyway)
                self.announce("end", ts)
            except SchedAbort:
                pass
            except BaseException as ex:      # the thread died: remember why
                ts.exc = ex
            finally:
                with self.mu:
                    ts.done = True
                    ts.pending = None
                    if self.running == ts.tid:
                        self.running = None
                    self.mu.notify_all()

        th = _real.Thread(target=body, name="sched-%s" % name)
        th.daemon = True
        self.os_threads.append(th)
        with self.mu:
            ts.pending = ("spawning", ts)
        th.start()
        # wait until the child has parked at "begin" so the controller sees it
        with self.mu:
            while ts.pending == ("spawning", ts) and not ts.done:
                self.mu.wait(0.001)
        return ts

    # ---- line-level pre-emption ------------------------------------------------------------------
    def _global_trace(self, frame, event, arg):
        if event == "call" and frame.f_code.co_filename == self.line_file:
            return self._local_trace
        return None

    def _local_trace(self, frame, event, arg):
        if event == "line" and not self.aborting:
            self.announce("line", frame.f_lineno)
        return self._local_trace

    # ---- enabledness ----------------------------------------------------------------------------
    @staticmethod
    def enabled(op, ts=None):
        kind, obj = op
        if kind == "acquire":
            # (a re-entrant lock may be taken again by the thread that holds it)
            return obj.holder is None or (getattr(obj, "reentrant", False) and ts is not None
                                          and obj.holder == ts.tid)
        if kind == "wait":
            # threading.Event.wait returns once a set() has notified the waiter, even if the flag was cleared
            # again before the waiter ran (Condition semantics)
            return obj.flag or (ts is not None and (ts.tid in obj.released or ts.tid in getattr(obj, "timed", ())))
        if kind == "join":
            return obj.ts is None or obj.ts.done
        if kind == "spawning":
            return False
        return True

    # ---- controller -----------------------------------------------------------------------------
    def run(self):
        """Drive all managed threads to completion (or deadlock / step bound).  Returns 'done',
        'deadlock' or 'steps'."""
        while True:
            with self.mu:
                while self.running is not None:
                    self.mu.wait()
                live = [t for t in self.order if not t.done]
                if not live:
                    return "done"
                en = [t for t in live if t.pending is not None and self.enabled(t.pending, t)]

                def only_by_timeout(t):
                    k, o = t.pending
                    return k == "wait" and not o.flag and t.tid not in o.released and t.tid in getattr(o, "timed", ())
                # a time-out fires when nothing else can run (time passes for a system that is otherwise quiet):
                # a polling loop cannot starve the threads it is polling for
                if any(not only_by_timeout(t) for t in en):
                    en = [t for t in en if not only_by_timeout(t)]
                if not en:
                    self.deadlock = [(t.name, _opname(t.pending)) for t in live]
                    self._abort_locked()
                    return "deadlock"
                if self.steps >= self.max_steps:
                    self._abort_locked()
                    return "steps"
                ts = self.choose(self, en)
                if ts is None:
                    self._abort_locked()
                    return "script-end"
                op = ts.pending
                self.steps += 1
                self.running = ts.tid
                self.mu.notify_all()
                while self.running is not None:
                    self.mu.wait()
            if self.on_step:
                self.on_step(self, ts, op)

    def _abort_locked(self):
        self.aborting = True
        self.mu.notify_all()

    def abort(self):
        with self.mu:
            self._abort_locked()

    def join_os_threads(self, timeout=2.0):
        for th in self.os_threads:
            th.join(timeout)
        return [th for th in self.os_threads if th.is_alive()]


def _opname(op):
    if op is None:
        return "running"
    kind, obj = op
    return "%s(%s)" % (kind, getattr(obj, "label", ""))


# ================================================================================================
# shim threading module
# ================================================================================================
def make_threading(sched_ref):
    """sched_ref: one-element list holding the current Sched (swapped per run)."""

    class Lock(object):
        _n = 0

        def __init__(self):
            self.holder = None
            self.label = "lock?"
            self.s = sched_ref[0]

        def acquire(self, blocking=True, timeout=-1):
            s = sched_ref[0]
            if s is self.s:              # objects of an earlier run (e.g. AudioIO.__del__ run by the GC) stay silent
                s.announce("acquire", self)
            self.holder = s.me().tid if s.me() else -1
            return True

        def release(self):
            s = sched_ref[0]
            if s is self.s:
                s.announce("release", self)
            self.holder = None

        def __enter__(self):
            self.acquire()
            return self

        def __exit__(self, *a):
            self.release()

        def locked(self):
            return self.holder is not None

    class RLock(Lock):
        """threading.RLock: the holder may acquire again; released when every acquire has been matched."""
        reentrant = True

        def __init__(self):
            Lock.__init__(self)
            self.depth = 0

        def acquire(self, blocking=True, timeout=-1):
            Lock.acquire(self, blocking, timeout)
            self.depth += 1
            return True

        def release(self):
            s = sched_ref[0]
            if s is self.s:
                s.announce("release", self)
            self.depth -= 1
            if self.depth <= 0:
                self.depth = 0
                self.holder = None

    class Event(object):
        def __init__(self):
            self.flag = False
            self.label = "event?"
            self._sets = 0
            self.released = set()       # tids of waiters notified by a set() while they were parked in wait()
            self.timed = set()          # tids of waiters that gave a time-out
            self.s = sched_ref[0]

        def _ann(self, kind):
            if sched_ref[0] is self.s:
                self.s.announce(kind, self)

        def set(self):
            self._sets += 1
            if self._sets > 1:           # the first set() is the constructor's, before the object is shared
                self._ann("set")
            self.flag = True
            if sched_ref[0] is self.s:
                for t in self.s.order:
                    if t.pending is not None and t.pending[0] == "wait" and t.pending[1] is self:
                        self.released.add(t.tid)

        def clear(self):
            self._ann("clear")
            self.flag = False

        def is_set(self):
            self._ann("is_set")
            return self.flag

        isSet = is_set

        def wait(self, timeout=None):
            me = self.s.me() if sched_ref[0] is self.s else None
            if me is not None and timeout is not None:
                self.timed.add(me.tid)          # a wait with a time-out may always return (with the flag's value)
            self._ann("wait")
            if me is not None:
                woken = self.flag or me.tid in self.released
                self.released.discard(me.tid)
                self.timed.discard(me.tid)
                return True if timeout is None else bool(woken)
            return self.flag

    class Thread(object):
        _count = [0]

        def __init__(self, group=None, target=None, name=None, args=(), kwargs=None, daemon=None):
            self.ts = None
            self.daemon = bool(daemon)
            self.label = "thread?"
            self._started = False
            self._target, self._args, self._kwargs = target, tuple(args), dict(kwargs or {})
            Thread._count[0] += 1
            self.name = name or "Thread-%d" % Thread._count[0]

        @property
        def ident(self):
            return None if self.ts is None else 1000 + self.ts.tid

        native_id = ident

        def getName(self):
            return self.name

        def setName(self, name):
            self.name = name

        def isDaemon(self):
            return self.daemon

        def setDaemon(self, flag):
            self.daemon = bool(flag)

        def start(self):
            s = sched_ref[0]
            s.announce("start", self)
            self._started = True
            self.ts = s.spawn(self.label, self.run)

        def run(self):
            if self._target is not None:
                self._target(*self._args, **self._kwargs)

        def join(self, timeout=None):
            if self.ts is not None and self.ts in sched_ref[0].order:
                sched_ref[0].announce("join", self)

        def is_alive(self):
            return self._started and self.ts is not None and not self.ts.done

        isAlive = is_alive

    class Condition(object):
        """threading.Condition over a shim lock; wait() parks on a private shim Event that notify() sets."""
        def __init__(self, lock=None):
            self._lock = lock if lock is not None else RLock()
            self._ev = Event()
            self._ev._sets = 1           # (every set() of this private event is a visible operation)
            self.acquire, self.release = self._lock.acquire, self._lock.release

        def __enter__(self):
            self._lock.acquire()
            return self

        def __exit__(self, *a):
            self._lock.release()

        def wait(self, timeout=None):
            self._ev.flag = False
            self._lock.release()
            try:
                return self._ev.wait(timeout)
            finally:
                self._lock.acquire()

        def wait_for(self, predicate, timeout=None):
            while not predicate():
                if not self.wait(timeout) and timeout is not None:
                    return predicate()
            return True

        def notify(self, n=1):
            self._ev.set()

        def notify_all(self):
            self._ev.set()

        notifyAll = notify_all

    class Semaphore(object):
        def __init__(self, value=1):
            self._value = value
            self._cond = Condition(Lock())

        def acquire(self, blocking=True, timeout=None):
            with self._cond:
                while self._value == 0:
                    if not blocking:
                        return False
                    self._cond.wait(timeout)
                self._value -= 1
                return True

        def release(self, n=1):
            with self._cond:
                self._value += n
                self._cond.notify_all()

        __enter__ = acquire

        def __exit__(self, *a):
            self.release()

    mod = types.ModuleType("threading")
    mod.Lock = Lock
    mod.RLock = RLock
    mod.Condition = Condition
    mod.Semaphore = mod.BoundedSemaphore = Semaphore
    mod.local = _real.local
    mod.main_thread = getattr(_real, 'main_thread', None)
    mod.get_ident = lambda: (1000 + sched_ref[0].me().tid) if sched_ref[0].me() else 0
    mod.Event = Event
    mod.Thread = Thread
    mod.ThreadError = RuntimeError
    mod.current_thread = _real.current_thread
    return mod


# ================================================================================================
# fake PyAudio backend
# ================================================================================================
class Backend(object):
    """State of the fake audio device for one run."""
    def __init__(self, sched_ref):
        self.sched_ref = sched_ref
        self.s = sched_ref[0]
        self.streams = []          # FakeStream in order of opening
        self.terminated = 0
        self.fail_at = {}          # stream label -> number of the chunk whose write raises (fault injection)
        self.bad_write = []
        self.errors = []

    def announce(self, kind, obj=None):
        if self.sched_ref[0] is self.s:
            self.s.announce(kind, obj)


class FakeStream(object):
    def __init__(self, backend, pa, kw):
        self.backend = backend
        self.pa = pa
        self.kw = kw
        self.state = "open"
        self.chunks = []           # (bytes, frames)
        self.failed = False        # an injected write error has happened on this stream
        self.fault_now = False
        self.nread = 0             # samples handed out by read()
        self.reads = 0             # read() calls
        self.nclose = 0
        self._stream = self        # handle passed to _portaudio.write_stream
        self.label = "stream%d" % (len(backend.streams) + 1)

    def stop_stream(self):
        self.backend.announce("stop_stream", self)
        self.state = "stopped"

    def start_stream(self):
        self.backend.announce("start_stream", self)
        self.state = "open"

    def close(self):
        self.backend.announce("close", self)
        self.nclose += 1
        self.state = "closed"
        self.pa._streams.discard(self)

    def read(self, frames):
        """Input side: the device hands out consecutive samples 1.0, 2.0, ... as packed floats."""
        import struct
        self.backend.announce("read", self)
        if self.state == "closed":
            self.backend.errors.append("read from a closed stream")
        first = self.nread
        self.nread += frames
        self.reads += 1
        return struct.pack("%df" % frames, *[float(first + i + 1) for i in range(frames)])

    def write(self, data, frames=None):
        self.backend.announce("write", self)
        self.fault_now = False
        if self.backend.fail_at.get(self.label) == len(self.chunks) + 1 and not self.failed:
            self.failed = True
            self.fault_now = True
            raise IOError("injected device error")
        if self.state != "open":
            self.backend.bad_write.append(self.label)
        self.chunks.append((bytes(data), frames))


def make_backend_modules(backend_ref):
    class PyAudio(object):
        def __init__(self):
            self._streams = set()
            self.backend = backend_ref[0]

        def open(self, **kw):
            b = self.backend
            b.announce("open", None)
            st = FakeStream(b, self, kw)
            b.streams.append(st)
            self._streams.add(st)
            return st

        def terminate(self):
            b = self.backend
            b.announce("terminate", None)
            b.terminated += 1

        def get_host_api_count(self):
            return 0

    pa = types.ModuleType("pyaudio")
    pa.PyAudio = PyAudio
    pa.paFloat32, pa.paInt32, pa.paInt16, pa.paInt8, pa.paUInt8 = 1, 2, 8, 16, 32

    def write_stream(st, data, frames, exc_on_underflow=False):
        st.write(data, frames)

    po = types.ModuleType("_portaudio")
    po.write_stream = write_stream
    return pa, po


# ================================================================================================
# loading lazy_io with the shims
# ================================================================================================
class Harness(object):
    """lazy_io (from the working tree, unmodified) bound to a swappable scheduler and backend."""
    def __init__(self, repo):
        self.sched_ref = [None]
        self.backend_ref = [None]
        shim = make_threading(self.sched_ref)
        pa, po = make_backend_modules(self.backend_ref)
        path = os.path.join(repo, "audiolazy", "lazy_io.py")
        import audiolazy  # noqa: the package provides the relative imports
        name = "audiolazy._lazy_io_under_scheduler"
        spec = importlib.util.spec_from_file_location(name, path)
        mod = importlib.util.module_from_spec(spec)
        mod.__package__ = "audiolazy"
        saved = {k: sys.modules.get(k) for k in ("threading", "pyaudio", "_portaudio")}
        sys.modules["threading"] = shim
        sys.modules["pyaudio"] = pa
        sys.modules["_portaudio"] = po
        try:
            sys.modules[name] = mod
            spec.loader.exec_module(mod)
        finally:
            sys.modules["threading"] = saved["threading"]
        # pyaudio / _portaudio are imported lazily by the library at run time: keep the fakes registered
        self.mod = mod
        self.shim = shim
        # (either `import threading` or `from threading import Thread, ...`)
        if getattr(mod, "threading", shim) is not shim or getattr(mod, "Thread", shim.Thread) is not shim.Thread:
            raise RuntimeError("lazy_io did not pick up the shim threading module")

    def new_run(self, choose, max_steps=4000, on_step=None, fine=False):
        s = Sched(choose, max_steps=max_steps, on_step=on_step,
                  line_file=self.mod.__file__ if fine else None)
        self.sched_ref[0] = s
        b = Backend(self.sched_ref)
        self.backend_ref[0] = b
        return s, b
