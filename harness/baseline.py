"""Run the repository's pinned test suite (guard off) and compare with /root/.vp/BASELINE.json."""
import json
import os
import subprocess
import sys
import tempfile
import xml.etree.ElementTree as ET


def main():
    base = json.load(open("/root/.vp/BASELINE.json"))
    fd, path = tempfile.mkstemp(suffix=".xml")
    os.close(fd)
    cmd = base["cmd"].replace("<file>", path)
    env = dict(os.environ)
    env.pop("AUDIOLAZY_VERIF", None)
    p = subprocess.run(cmd, shell=True, env=env, stdout=subprocess.PIPE, stderr=subprocess.STDOUT,
                       universal_newlines=True)
    passed, failed = set(), set()
    for tc in ET.parse(path).getroot().iter("testcase"):
        tid = "%s::%s" % (tc.get("classname"), tc.get("name"))
        bad = any(ch.tag in ("failure", "error", "skipped") for ch in tc)
        (failed if bad else passed).add(tid)
    os.unlink(path)
    want = set(base["stable_pass"])
    missing = sorted(want - passed)
    newly = sorted((passed - want))
    print("passed=%d stable_pass=%d missing=%d newly_passing=%d" % (len(passed), len(want), len(missing), len(newly)))
    for t in missing[:40]:
        print("  NOT PASSING:", t)
    for t in newly[:40]:
        print("  newly passing:", t)
    sys.exit(1 if missing else 0)


main()
