"""X06 (extension) - the recording side of the audio manager, which C17 does not mention: AudioIO.record / RecStream
(the `rec` generator reading whole chunks while recording, handing out sample by sample; `stop`; the drain loop of
`close()`; registration in `_recordings`).

M1  TLC: spec/io/RecStream.tla, full reachable graph (2 recordings, chunk 2, 5 reads).
M2  every transition of that graph replayed on the real AudioIO.record / RecStream over the fake backend
    (shortest path from Init + the transition), return value and projected state compared.
(Used to run inside C17; split off so that C17's verdict demands exactly what C17 states.)
"""
import common
import sched as schedmod
import drive_c17


def check(ctx):
    common.import_audiolazy()
    h = schedmod.Harness(common.REPO)
    ctx.rule = ("every transition of the RecStream state graph replayed on the real objects; non-trivial = "
                "histories of >= 3 calls")
    ctx.assumptions = ["one caller thread; the fake input device hands out 1.0, 2.0, ... (never fails)"]
    drive_c17.rec_replay(ctx, h, prefix="X06")
    ctx.exhaustive = True
