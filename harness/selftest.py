"""Binding demonstration: apply each mutant in /verif/mutants to a scratch copy of the package (never to
/repo), point the property's quick check at it through VERIF_REPO and require a VIOLATION."""
import glob
import importlib.util
import os
import shutil
import subprocess
import sys
import tempfile

VERIF = os.path.dirname(os.path.dirname(os.path.abspath(__file__)))


def load(path):
    spec = importlib.util.spec_from_file_location("mut", path)
    m = importlib.util.module_from_spec(spec)
    spec.loader.exec_module(m)
    return m


def main(argv):
    pats = argv or ["*"]
    files = sorted(f for p in pats for f in glob.glob(os.path.join(VERIF, "mutants", p + ".py")))
    results = []
    for f in files:
        m = load(f)
        pid, rel, old, new = m.M
        expect = getattr(m, "EXPECT", "caught")        # "caught" | "clean" (stays inside the property)
        d = tempfile.mkdtemp(prefix="mut-")
        try:
            shutil.copytree(os.path.join(os.environ.get("VERIF_REPO", "/repo"), "audiolazy"),
                            os.path.join(d, "audiolazy"), ignore=shutil.ignore_patterns("__pycache__"))
            path = os.path.join(d, rel)
            src = open(path).read()
            if src.count(old) != 1:
                results.append((os.path.basename(f), "STALE (pattern occurs %d times)" % src.count(old)))
                print("%-40s %s" % results[-1])
                continue
            open(path, "w").write(src.replace(old, new))
            env = dict(os.environ, VERIF_REPO=d, VERIF_NO_EVIDENCE="1")
            p = subprocess.run([os.path.join(VERIF, "vf"), "check", pid, "--tier", "quick"], env=env,
                               stdout=subprocess.PIPE, stderr=subprocess.STDOUT, universal_newlines=True)
            viol = [l for l in p.stdout.splitlines() if l.startswith("VIOLATION")]
            keys = sorted(set(l.strip()[4:] for l in p.stdout.splitlines() if l.startswith("  key=")))
            if p.returncode == 1 and viol:
                verdict = "caught" 
            elif p.returncode == 0:
                verdict = "clean"
            else:
                verdict = "machinery rc=%d" % p.returncode
            ok = "ok" if verdict == expect else "UNEXPECTED"
            results.append((os.path.basename(f), "%s (%s) %s" % (verdict, ok, " ".join(keys)[:200])))
        finally:
            shutil.rmtree(d, ignore_errors=True)
        print("%-40s %s" % results[-1])
        sys.stdout.flush()
    bad = [r for r in results if "UNEXPECTED" in r[1] or "STALE" in r[1] or "machinery" in r[1]]
    print("%d mutants, %d not as expected" % (len(results), len(bad)))
    return 1 if bad else 0


if __name__ == "__main__":
    sys.exit(main(sys.argv[1:]))
