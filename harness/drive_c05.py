"""C05 - filter algebra is system algebra.

M1  TLC: spec/dsp/FilterAlgC05.tla (grids) over spec/dsp/FilterAlg.tla (machine; operational layer = the
    ZFilter operators with shortcut / shift / reciprocal-first power / substitution loops, definition layer =
    fraction arithmetic of rational functions compared by cross-multiplication and the LTI system at rest,
    tied to module Filter of C04) over Poly.tla: every expression tree denotes its rational function, field
    laws, eq/ne/hash coherence, (f op g)(x) against compositions of outputs, cascade / parallel.
M2  spec -> code: every dumped state is replayed on real ZFilter / CascadeFilter / ParallelFilter objects
    (coefficients as Fractions and as ints / dyadic floats, atoms through the constructor and through `z`
    expressions); numpoly / denpoly are cross-multiplied against the value TLC exported, ==, != and hash are
    observed, outputs on linear-form samples are compared with the exported sequences.
M3  code -> spec: seeded random deeper trees over random filters and random causal pairs on longer inputs;
    the logged polynomials / outputs are judged by TLC (spec/trace/FilterAlgTrace.tla).
"""
import os
from fractions import Fraction
from functools import reduce
from math import gcd

import common
import tlaval
import tlc
import tracecheck
from exact import LinForm, lin_vec, vec_to_lin
from drive_c07 import poly_of, rat_of, exact, pairs, show, Bad, encodable

F = Fraction
LIMIT = 1 << 28
MAXLEN = 5            # = MaxLen of the FilterAlgC05 cfgs


# --------------------------------------------------------------------------------------------------

_INPUT_ROUTE = [0]


def as_input(al, items):
    """The input signal in one of its legal container forms, cycled per call: one-shot iterators, generators and
    Streams reveal a consumer that iterates its input more than once without a tee (e.g. a parallel bank)."""
    _INPUT_ROUTE[0] += 1
    r = _INPUT_ROUTE[0] % 5
    if r == 0:
        return list(items)
    if r == 1:
        return iter(items)
    if r == 2:
        return (x for x in items)
    if r == 3:
        return al.Stream(items)
    return tuple(items)

def scalar(c, kind):
    """spec rational -> the Python number given to the library"""
    if kind == "frac":
        return c
    if c.denominator == 1:
        return int(c)
    fl = float(c)
    if F(fl) != c:
        raise tlc.MachineryError("scalar %s is not a dyadic rational" % c)
    return fl


def build(al, t, kind, route="ctor"):
    """real object for an expression tree (dict as parsed from TLC / as generated for M3)"""
    op = t["op"]
    if op == "lit":
        n = t["n"] if isinstance(t["n"], dict) and all(isinstance(v, Fraction) for v in t["n"].values()) \
            else poly_of(t["n"])
        d = t["d"] if isinstance(t["d"], dict) and all(isinstance(v, Fraction) for v in t["d"].values()) \
            else poly_of(t["d"])
        if route == "ctor":
            return al.ZFilter({k: scalar(c, kind) for k, c in n.items()}, {k: scalar(c, kind) for k, c in d.items()})
        z = al.z
        num = al.ZFilter([0]) if not n else sum(scalar(c, kind) * z ** -k for k, c in sorted(n.items()))
        if d == {0: F(1)}:
            return num
        return num / sum(scalar(c, kind) * z ** -k for k, c in sorted(d.items()))
    if op == "num":
        c = t["c"] if isinstance(t["c"], Fraction) else rat_of(t["c"])
        return scalar(c, kind)
    if op == "neg":
        return -build(al, t["l"], kind, route)
    if op == "pos":
        return +build(al, t["l"], kind, route)
    if op == "pow":
        return build(al, t["l"], kind, route) ** t["e"]
    l, r = build(al, t["l"], kind, route), build(al, t["r"], kind, route)
    if op == "add":
        return l + r
    if op == "sub":
        return l - r
    if op == "mul":
        return l * r
    if op == "div":
        return l / r
    if op == "subst":
        return l(r)
    raise ValueError(op)


def _lit_polys(t):
    n = t["n"] if isinstance(t["n"], dict) and all(isinstance(v, Fraction) for v in t["n"].values()) else poly_of(t["n"])
    d = t["d"] if isinstance(t["d"], dict) and all(isinstance(v, Fraction) for v in t["d"].values()) else poly_of(t["d"])
    return n, d


def _pow2(c):
    c = abs(c)
    return c != 0 and (c.numerator & (c.numerator - 1)) == 0 and (c.denominator & (c.denominator - 1)) == 0


def _dyadic(c):
    return (c.denominator & (c.denominator - 1)) == 0


def float_safe(t):
    """True when the library, given ints / dyadic floats, only adds, subtracts and multiplies dyadic numbers while
    evaluating the tree (decided from the tree alone).  The only places where it divides coefficients are
    filter / number and a negative power of a one-term filter: allowed only for +-2^k there."""
    op = t["op"]
    if op == "lit":
        n, d = _lit_polys(t)
        return all(_dyadic(c) for c in list(n.values()) + list(d.values()))
    if op == "num":
        return _dyadic(t["c"] if isinstance(t["c"], Fraction) else rat_of(t["c"]))
    if op in ("neg", "pos"):
        return float_safe(t["l"])

    def pow2_lit(x):
        if x["op"] != "lit":
            return False
        n, d = _lit_polys(x)
        return all(_pow2(c) for c in list(n.values()) + list(d.values()))
    if op == "pow":
        return float_safe(t["l"]) if t["e"] >= 0 else pow2_lit(t["l"])
    if op == "subst":
        return float_safe(t["l"]) and pow2_lit(t["r"])
    if op == "div" and t["r"]["op"] == "num":
        c = t["r"]["c"] if isinstance(t["r"]["c"], Fraction) else rat_of(t["r"]["c"])
        return float_safe(t["l"]) and _pow2(c)
    return float_safe(t["l"]) and float_safe(t["r"])


def kinds_for(*trees):
    return KINDS if all(float_safe(t) for t in trees) else ("frac",)


def tree_str(t):
    op = t["op"]
    if op == "lit":
        n = poly_of(t["n"]) if not (isinstance(t["n"], dict) and all(isinstance(v, Fraction) for v in t["n"].values())) else t["n"]
        d = poly_of(t["d"]) if not (isinstance(t["d"], dict) and all(isinstance(v, Fraction) for v in t["d"].values())) else t["d"]

        def ps(p):
            return "0" if not p else "+".join("%s*z^-%d" % (c, k) if k else "%s" % c for k, c in sorted(p.items())).replace("+-", "-")
        return "(%s)" % ps(n) if d == {0: F(1)} else "((%s)/(%s))" % (ps(n), ps(d))
    if op == "num":
        return str(t["c"] if isinstance(t["c"], Fraction) else rat_of(t["c"]))
    if op in ("neg", "pos"):
        return "%s%s" % ("-" if op == "neg" else "+", tree_str(t["l"]))
    if op == "pow":
        return "%s**%d" % (tree_str(t["l"]), t["e"])
    if op == "subst":
        return "%s(%s)" % (tree_str(t["l"]), tree_str(t["r"]))
    return "(%s %s %s)" % (tree_str(t["l"]), {"add": "+", "sub": "-", "mul": "*", "div": "/"}[op], tree_str(t["r"]))


def obs_poly(P):
    """dict(poly.terms()) of a numpoly / denpoly as {int: Fraction}"""
    out = {}
    for k, v in dict(P.terms()).items():
        e = exact(v)
        if e is None or isinstance(k, bool) or not isinstance(k, int):
            raise Bad("term (%r, %r) is not an exact integer-power term" % (k, v))
        if e != 0:
            out[k] = e
    return out


def obs_filter(f):
    return obs_poly(f.numpoly), obs_poly(f.denpoly)


def pmul(a, b):
    out = {}
    for k1, c1 in a.items():
        for k2, c2 in b.items():
            out[k1 + k2] = out.get(k1 + k2, 0) + c1 * c2
    return {k: c for k, c in out.items() if c != 0}


def equiv(o, v):
    """cross-multiplication: observed (n, d) and expected (n, d) are the same rational function"""
    return bool(o[1]) and pmul(o[0], v[1]) == pmul(v[0], o[1])


def fval(v):
    return poly_of(v["n"]), poly_of(v["d"])


def run(f, n, ns):
    """f on the linear-form samples x1..xn at rest -> list of spec vectors, or raises Bad"""
    xs = [LinForm.sym(i) for i in range(1, n + 1)]
    return vecs(list(f(xs, zero=0)), ns)


def vecs(out, ns):
    res = []
    for o in out:
        v = lin_vec(o, ns)
        if v is None:
            raise Bad("output sample %r is not an exact linear form" % (o,))
        res.append(tuple(tuple(p) for p in v))
    return res


def want_vecs(seq):
    return [tuple(tuple(p) for p in v) for v in seq]


def vshow(vs):
    return [repr(vec_to_lin(v)) for v in vs]


KINDS = ("frac", "float")


class Replayer(object):
    def __init__(self, ctx, al, maxlen):
        self.ctx, self.al, self.maxlen = ctx, al, maxlen
        self.ns = maxlen + 1
        self.diag = {}

    def note(self, what, detail):
        if what not in self.diag:
            self.diag[what] = 0
            self.ctx.log("diagnostic (not a violation): %s %s" % (what, detail))
        self.diag[what] += 1

    def expect_value(self, key, info, fn, want, structural=True):
        """fn() must be a filter denoting the rational function `want` (TLC's exported value)"""
        self.ctx.count(1)
        try:
            o = obs_filter(fn())
        except Exception as ex:
            self.ctx.violation("C05:%s-raises" % key, dict(info, op=key, expected=[show(want[0]), show(want[1])],
                                                            raised="%s: %s" % (type(ex).__name__, str(ex)[:160])))
            return None
        if not equiv(o, want):
            self.ctx.violation("C05:%s" % key, dict(info, op=key, expected=[show(want[0]), show(want[1])],
                                                    observed=[show(o[0]), show(o[1])]))
            return None
        if structural and o != want:
            self.note("same rational function, other polynomials than the operational model",
                      dict(info, op=key, expected=[show(want[0]), show(want[1])], observed=[show(o[0]), show(o[1])]))
        return o

    def expect_out(self, key, info, fn, want):
        self.ctx.count(1)
        try:
            got = fn()
        except Exception as ex:
            self.ctx.violation("C05:%s-raises" % key, dict(info, op=key, expected=vshow(want),
                                                            raised="%s: %s" % (type(ex).__name__, str(ex)[:160])))
            return
        if got != want:
            self.ctx.violation("C05:%s" % key, dict(info, op=key, expected=vshow(want), observed=vshow(got)))

    def eq_ne_hash(self, info, A, B, model_eq, fa, fb, what):
        """exactly one of A == B, A != B holds, and equal filters hash equally"""
        self.ctx.count(1)
        try:
            eq, ne, hq = bool(A == B), bool(A != B), hash(A) == hash(B)
        except Exception as ex:
            self.ctx.violation("C05:eq-ne-hash-raises", dict(info, op=what, raised="%s: %s" % (type(ex).__name__, ex)))
            return
        if eq == ne:
            same_n, same_d = fa[0] == fb[0], fa[1] == fb[1]
            cls = "differ-in-one-polynomial" if (same_n != same_d) else ("equal" if same_n else "differ-in-both")
            self.ctx.violation("C05:eq-ne:%s" % cls, dict(info, op=what, eq=eq, ne=ne,
                                                         why="f == g and f != g are both %s" % eq))
        if eq and not hq:
            self.ctx.violation("C05:eq-hash", dict(info, op=what, eq=eq, hash_equal=hq))
        if eq != model_eq:
            self.note("== differs from 'same numerator and denominator polynomials'", dict(info, op=what, eq=eq))

    # ---- states --------------------------------------------------------------------------------
    def state(self, st, idx):
        if st["pc"] != "done":
            return
        getattr(self, "k_" + st["case"]["kind"])(st["case"], st["res"], idx)

    def k_tree(self, case, res, idx):
        t = case["t"]
        if not res["ok"]:
            return                       # a zero divisor somewhere: outside the property
        want = fval(res["v"])
        top = t["op"]
        nontriv = ("tree", tree_str(t)) if top not in ("lit",) else None
        for kind in kinds_for(t):
            for route in (("ctor", "zexpr") if idx % 2 == 0 else ("ctor",)):
                info = {"tree": tree_str(t), "coefficients": kind, "atoms": route}
                self.ctx.count(0, nontrivial_key=nontriv)
                f = self.expect_value("tree-%s" % top, info, lambda: build(self.al, t, kind, route), want)
                if f is not None and res["causal"] and kind == "float":
                    self.expect_out("tree-output", info,
                                    lambda: run(build(self.al, t, kind, route), self.maxlen, self.ns), want_vecs(res["out"]))

    def k_pair(self, case, res, idx):
        al = self.al
        tf, tg = case["f"], case["g"]
        vf, vg = fval(res["f"]), fval(res["g"])
        add, sub, mul = fval(res["add"]), fval(res["sub"]), fval(res["mul"])
        gzero = not vg[0]
        fzero = not vf[0]
        shared = vf[1] == vg[1] and vf[1] != {0: F(1)}      # same denominator other than 1: __add__ takes its shortcut
        for kind in kinds_for(tf, tg):
            info = {"f": tree_str(tf), "g": tree_str(tg), "coefficients": kind}
            self.ctx.count(0, nontrivial_key=("pair", info["f"], info["g"]))
            try:
                Fo, Go = build(al, tf, kind), build(al, tg, kind)
            except Exception as ex:
                self.ctx.violation("C05:operand-raises", dict(info, raised=repr(ex)))
                continue
            self.expect_value("add", info, lambda: Fo + Go, add)
            self.expect_value("add-commutative", info, lambda: Go + Fo, add)
            self.expect_value("sub", info, lambda: Fo - Go, sub)
            self.expect_value("add-sub", dict(info, form="(f-g)+g"), lambda: (Fo - Go) + Go, vf, structural=False)
            self.expect_value("mul", info, lambda: Fo * Go, mul)
            self.expect_value("mul-commutative", info, lambda: Go * Fo, mul)
            if not gzero:
                self.expect_value("div", info, lambda: Fo / Go, fval(res["div"]))
                self.expect_value("div-mul", dict(info, form="(f/g)*g"), lambda: (Fo / Go) * Go, fval(res["divmul"]))
                self.expect_value("div-mul", dict(info, form="(f/g)*g ~ f"), lambda: (Fo / Go) * Go, vf, structural=False)
            if not fzero:
                self.expect_value("f/f", info, lambda: Fo / Fo, fval(res["ff"]))
                self.expect_value("f/f", dict(info, form="f/f ~ 1"), lambda: Fo / Fo, ({0: F(1)}, {0: F(1)}), structural=False)
            # == / != / hash
            self.eq_ne_hash(info, Fo, Go, res["eq"], vf, vg, "f ? g")
            self.eq_ne_hash(info, Fo, build(al, tf, kind), True, vf, vf, "f ? f (rebuilt)")
            try:
                A, B = Fo + Go, Go + Fo
                self.eq_ne_hash(info, A, B, True, obs_filter(A), obs_filter(B), "f+g ? g+f")
            except Exception:
                pass
            # CascadeFilter / ParallelFilter: numerator-denominator polynomials
            for shape in ("args", "list"):
                mk = (lambda cls, a, b: cls(a, b)) if shape == "args" else (lambda cls, a, b: cls([a, b]))
                i2 = dict(info, given_as=shape)
                self.expect_value("cascade-polys", i2, lambda: mk(al.CascadeFilter, Fo, Go), fval(res["casc"]))
                self.expect_value("cascade-polys", dict(i2, against="f*g"), lambda: mk(al.CascadeFilter, Fo, Go), mul, structural=False)
                pkey = "parallel-polys-shared-denominator" if shared else "parallel-polys"
                self.expect_value(pkey, i2, lambda: mk(al.ParallelFilter, Fo, Go), fval(res["par"]))
                self.expect_value(pkey, dict(i2, against="f+g"), lambda: mk(al.ParallelFilter, Fo, Go), add, structural=False)
            # systems
            if res["causal"] and kind == "float":
                n, ns = self.maxlen, self.ns
                fo, go = want_vecs(res["fo"]), want_vecs(res["go"])
                addo, subo, mulo = want_vecs(res["addo"]), want_vecs(res["subo"]), want_vecs(res["mulo"])
                xs = lambda: as_input(al, [LinForm.sym(i) for i in range(1, n + 1)])
                self.expect_out("f(x)", info, lambda: run(Fo, n, ns), fo)
                self.expect_out("(f+g)(x)", info, lambda: run(Fo + Go, n, ns), addo)
                self.expect_out("(f+g)(x)", dict(info, form="f(x)+g(x)"),
                                lambda: vecs([a + b for a, b in zip(Fo(xs(), zero=0), Go(xs(), zero=0))], ns), addo)
                self.expect_out("(f-g)(x)", info, lambda: run(Fo - Go, n, ns), subo)
                self.expect_out("(f-g)(x)", dict(info, form="f(x)-g(x)"),
                                lambda: vecs([a - b for a, b in zip(Fo(xs(), zero=0), Go(xs(), zero=0))], ns), subo)
                self.expect_out("(f*g)(x)", info, lambda: run(Fo * Go, n, ns), mulo)
                self.expect_out("(f*g)(x)", dict(info, form="f(g(x))"),
                                lambda: vecs(list(Fo(Go(xs(), zero=0), zero=0)), ns), mulo)
                self.expect_out("(f*g)(x)", dict(info, form="g(f(x))"),
                                lambda: vecs(list(Go(Fo(xs(), zero=0), zero=0)), ns), mulo)
                if not gzero:
                    self.expect_out("((f/g)*g)(x)", info, lambda: run((Fo / Go) * Go, n, ns), want_vecs(res["dmo"]))
                    self.expect_out("((f/g)*g)(x)", dict(info, against="f(x)"), lambda: run((Fo / Go) * Go, n, ns), fo)
                self.expect_out("cascade(x)", info, lambda: vecs(list(al.CascadeFilter(Fo, Go)(xs(), zero=0)), ns), mulo)
                self.expect_out("parallel(x)", info, lambda: vecs(list(al.ParallelFilter(Fo, Go)(xs(), zero=0)), ns), addo)

    def k_triple(self, case, res, idx):
        al = self.al
        a3, m3, ds = fval(res["add3"]), fval(res["mul3"]), fval(res["dist"])
        ks = kinds_for(case["f"], case["g"], case["h"])
        for kind in (ks if idx % 4 == 0 else (ks[idx % len(ks)],)):
            info = {"f": tree_str(case["f"]), "g": tree_str(case["g"]), "h": tree_str(case["h"]), "coefficients": kind}
            self.ctx.count(0, nontrivial_key=("triple", info["f"], info["g"], info["h"]))
            A, B, C = build(al, case["f"], kind), build(al, case["g"], kind), build(al, case["h"], kind)
            self.expect_value("add-associative", dict(info, form="(f+g)+h"), lambda: (A + B) + C, a3)
            self.expect_value("add-associative", dict(info, form="f+(g+h)"), lambda: A + (B + C), a3, structural=False)
            self.expect_value("mul-associative", dict(info, form="(f*g)*h"), lambda: (A * B) * C, m3)
            self.expect_value("mul-associative", dict(info, form="f*(g*h)"), lambda: A * (B * C), m3, structural=False)
            self.expect_value("distributive", dict(info, form="f*(g+h)"), lambda: A * (B + C), ds)
            self.expect_value("distributive", dict(info, form="f*g+f*h"), lambda: A * B + A * C, ds, structural=False)

    def k_one(self, case, res, idx):
        al = self.al
        c, e = rat_of(case["c"]), case["e"]
        n, ns = self.maxlen, self.ns
        for kind in kinds_for(case["f"]):
            info = {"f": tree_str(case["f"]), "c": str(c), "e": e, "coefficients": kind}
            self.ctx.count(0, nontrivial_key=("one", info["f"], str(c), e))
            Fo = build(al, case["f"], kind)
            cv = scalar(c, kind)
            self.expect_value("scalar-left", info, lambda: cv * Fo, fval(res["left"]))
            self.expect_value("scalar-right", info, lambda: Fo * cv, fval(res["right"]))
            self.expect_value("pow", info, lambda: Fo ** e, fval(res["pow"]))
            if e >= 1:
                self.expect_value("pow", dict(info, form="n-fold product"), lambda: reduce(lambda a, b: a * b, [Fo] * e),
                                  fval(res["pow"]), structural=False)
            if kind == "float":
                so, po = want_vecs(res["so"]), want_vecs(res["po"])
                xs = lambda: as_input(al, [LinForm.sym(i) for i in range(1, n + 1)])
                self.expect_out("(c*f)(x)", info, lambda: run(cv * Fo, n, ns), so)
                self.expect_out("(c*f)(x)", dict(info, form="f*c"), lambda: run(Fo * cv, n, ns), so)
                self.expect_out("(c*f)(x)", dict(info, form="c*f(x)"), lambda: vecs([cv * y for y in Fo(xs(), zero=0)], ns), so)
                self.expect_out("(f**n)(x)", info, lambda: run(Fo ** e, n, ns), po)

                def times():
                    data = xs()
                    for _ in range(e):
                        data = list(Fo(data, zero=0))
                    return vecs(data, ns)
                self.expect_out("(f**n)(x)", dict(info, form="f applied n times"), times, po)

    def k_delay(self, case, res, idx):
        al = self.al
        k = case["k"]
        n, ns = self.maxlen, self.ns
        info = {"k": k}
        self.ctx.count(0, nontrivial_key=("delay", k))
        self.expect_value("delay", info, lambda: al.z ** -k, fval(res["v"]))
        self.expect_out("delay(x)", info, lambda: run(al.z ** -k, n, ns), want_vecs(res["out"]))
        zeros = [tuple((0, 1) for _ in range(ns))] * min(k, n)
        shifted = zeros + [tuple(tuple(p) for p in LinForm.sym(i).vec(ns)) for i in range(1, n - min(k, n) + 1)]
        self.expect_out("delay(x)", dict(info, against="k zeros then x"), lambda: run(al.z ** -k, n, ns), shifted)


def m2(ctx, al, cfg):
    d = tlc.scratch_dir("c05")
    dump = os.path.join(d, "states")
    # (-coverage 1 exhausts the heap on the recursive tree evaluator; the dump shows which actions ran)
    r = tlc.require_ok(tlc.run("FilterAlgC05", cfg, dump=dump, coverage=False, timeout=2400), "FilterAlgC05")
    ctx.add_tlc(r, "FilterAlg (C05 grid): trees denote their rational functions, field laws, systems, eq/ne/hash")
    ctx.log("M1: TLC %d distinct states in %.1fs" % (r.distinct, r.wall))
    rp = Replayer(ctx, al, MAXLEN)
    n = 0
    done = {}
    for st in tlaval.read_dump(dump + ".dump"):
        n += 1
        if st["pc"] == "done":
            done[st["case"]["kind"]] = done.get(st["case"]["kind"], 0) + 1
        rp.state(st, n)
        if n % 1301 == 0 and st["pc"] == "done" and st["case"]["kind"] == "tree":
            ctx.sample({"tree": tree_str(st["case"]["t"]), "defined": st["res"]["ok"]})
    if n != r.distinct:
        raise tlc.MachineryError("dump has %d states, TLC reported %d" % (n, r.distinct))
    for k in ("tree", "pair", "triple", "one", "delay"):
        if not done.get(k):
            raise tlc.MachineryError("FilterAlgC05: no '%s' case was evaluated (vacuous)" % k)
    ctx.traces += n
    ctx.log("M2: %d spec states replayed on real filters %s; %d evaluations so far" % (n, done, ctx.evaluations))
    for k, v in rp.diag.items():
        ctx.log("diagnostic total: %s: %d" % (k, v))


# --------------------------------------------------------------------------------------------------
# M3
def lcm(a, b):
    return a * b // gcd(a, b)


def rand_lit(rng, causal=False, tame=False):
    def poly(maxdeg, lo=0, need0=False):
        ks = [k for k in range(lo, maxdeg + 1) if rng.random() < 0.6]
        p = {k: F(rng.choice([-3, -2, -1, 1, 2, 3]), 1 if tame else rng.choice([1, 1, 1, 2])) for k in ks}
        if need0:
            p[0] = F(1) if tame else F(rng.choice([1, 1, -1, 2]), rng.choice([1, 1, 2]))
        return p
    n = poly(rng.randint(0, 3), 0 if causal else rng.choice([0, 0, -1]))
    d = poly(rng.randint(0, 2), 0, need0=True) if rng.random() < 0.6 else {0: F(1)}
    return {"op": "lit", "n": n, "d": d}


def rand_tree(rng, depth):
    if depth == 0 or rng.random() < 0.15:
        return rand_lit(rng)
    op = rng.choice(["add", "sub", "mul", "div", "subst", "pow", "neg", "add", "mul", "numr", "numl"])
    if op == "neg":
        return {"op": "neg", "l": rand_tree(rng, depth - 1)}
    if op == "pow":
        return {"op": "pow", "l": rand_tree(rng, depth - 1), "e": rng.choice([-2, -1, 0, 1, 2, 3])}
    if op in ("numr", "numl"):
        o = rng.choice(["add", "sub", "mul", "div"])
        c = {"op": "num", "c": F(rng.choice([-3, -2, -1, 1, 2, 3]), rng.choice([1, 1, 2]))}
        sub = rand_tree(rng, depth - 1)
        return {"op": o, "l": sub, "r": c} if op == "numr" else {"op": o, "l": c, "r": sub}
    return {"op": op, "l": rand_tree(rng, depth - 1), "r": rand_tree(rng, depth - 1)}


BIG = F(10) ** 40


def majorant(t):
    """(abs numerator, abs denominator, lcm of coefficient denominators) of the tree's defining fraction arithmetic,
    from the inputs alone; None when something divides by an (identically) zero numerator bound"""
    op = t["op"]

    def mmul(a, b):
        out = {}
        if len(a) * len(b) > 4000:
            raise OverflowError("majorant too wide")        # (from the tree alone: such a tree is skipped)
        for k1, c1 in a.items():
            for k2, c2 in b.items():
                out[k1 + k2] = out.get(k1 + k2, 0) + c1 * c2
        if len(out) > 80 or any(c > BIG for c in out.values()):
            raise OverflowError("majorant outside every specified range")
        return out

    def madd(a, b):
        out = dict(a)
        for k, c in b.items():
            out[k] = out.get(k, 0) + c
        return out

    def mpow(a, e):
        r = {0: F(1)}
        for _ in range(e):
            r = mmul(r, a)
        return r
    if op == "lit":
        dd = reduce(lcm, [c.denominator for c in list(t["n"].values()) + list(t["d"].values())], 1)
        return ({k: abs(c) for k, c in t["n"].items()}, {k: abs(c) for k, c in t["d"].items()}, dd)
    if op == "num":
        return ({0: abs(t["c"])}, {0: F(1)}, t["c"].denominator * max(abs(t["c"].numerator), 1))
    if op in ("neg", "pos"):
        return majorant(t["l"])
    if op == "pow":
        n, d, dd = majorant(t["l"])
        e = abs(t["e"])
        return (mpow(n, e), mpow(d, e), dd ** max(e, 1)) if t["e"] >= 0 else (mpow(d, e), mpow(n, e), dd ** max(e, 1))
    (n1, d1, e1), (n2, d2, e2) = majorant(t["l"]), majorant(t["r"])
    if op in ("add", "sub"):
        return (madd(mmul(n1, d2), mmul(n2, d1)), mmul(d1, d2), e1 * e2)
    if op == "mul":
        return (mmul(n1, n2), mmul(d1, d2), e1 * e2)
    if op == "div":
        return (mmul(n1, d2), mmul(d1, n2), e1 * e2)
    # substitution, as the library's two sum(v * g ** -k) loops build it (unreduced sums, then one division)
    def loop(p):
        an, ad = {}, {0: F(1)}
        for k, c in sorted(p.items()):
            tn, td = (mpow(d2, k), mpow(n2, k)) if k >= 0 else (mpow(n2, -k), mpow(d2, -k))
            tn = {kk: c * v for kk, v in tn.items()}
            an, ad = madd(mmul(an, td), mmul(tn, ad)), mmul(ad, td)
        return an, ad
    (nn, nd), (dn, dd_) = loop(n1), loop(d1)
    span = sum(abs(k) for k in list(n1) + list(d1))
    return (mmul(nn, dd_), mmul(nd, dn), e1 * e1 * e2 ** (2 * max(span, 1)))


def fits_tree(t):
    n, d, dd = majorant(t)
    s = (sum(n.values()) + 1) * (sum(d.values()) + 1)
    return 2 * s * s * dd ** 4 < LIMIT and len(n) < 40 and len(d) < 40


def jtree(t):
    """tree -> JSON for the trace module"""
    op = t["op"]
    if op == "lit":
        return {"op": "lit", "n": pairs(t["n"]), "d": pairs(t["d"])}
    if op == "num":
        return {"op": "num", "c": [t["c"].numerator, t["c"].denominator]}
    out = {"op": op, "l": jtree(t["l"])}
    if op == "pow":
        out["e"] = t["e"]
    elif op not in ("neg", "pos"):
        out["r"] = jtree(t["r"])
    return out


def m3(ctx, al, ntrees, nsys, length):
    rng = ctx.rng
    recs, meta = [], []
    tries = 0
    unjudged = [0]
    # --- deeper random trees: the code's numpoly / denpoly judged by cross-multiplication in TLC
    while len(recs) < ntrees and tries < ntrees * 60:
        tries += 1
        t = rand_tree(rng, rng.choice([2, 3, 3, 4]))
        try:
            if not fits_tree(t):
                continue
        except (ZeroDivisionError, OverflowError):
            continue
        kind = rng.choice(kinds_for(t))
        info = {"tree": tree_str(t), "coefficients": kind}
        try:
            f = build(al, t, kind, rng.choice(["ctor", "zexpr"]))
            n, d = obs_filter(f)
        except Exception as ex:
            # a zero divisor inside a random tree is outside the property; TLC decides whether the tree is defined
            recs.append({"op": "tree", "t": jtree(t), "n": [], "d": [], "raised": True})
            meta.append(dict(info, raised="%s: %s" % (type(ex).__name__, str(ex)[:120])))
            continue
        if not encodable([pairs(n), pairs(d)]):
            # numpoly / denpoly are not canonical (any equivalent fraction is right, the judge cross-multiplies):
            # numbers TLC cannot hold are not a verdict, the observation is left unjudged
            unjudged[0] += 1
            continue
        recs.append({"op": "tree", "t": jtree(t), "n": pairs(n), "d": pairs(d), "raised": False})
        meta.append(info)
        ctx.count(1, nontrivial_key=("m3", len(recs)))
        if rng.random() < 0.5:
            g_t = rand_tree(rng, 1) if rng.random() < 0.6 else t
            try:
                if fits_tree(g_t) and (kind == "frac" or float_safe(g_t)):
                    g = build(al, g_t, kind)
                    recs.append({"op": "eq", "f": jtree(t), "g": jtree(g_t), "eq": bool(f == g), "ne": bool(f != g),
                                 "hasheq": hash(f) == hash(g)})
                    og = obs_filter(g)
                    meta.append({"f": tree_str(t), "g": tree_str(g_t), "coefficients": kind, "what": "== != hash",
                                 "same_n": n == og[0], "same_d": d == og[1]})
                    ctx.count(1, nontrivial_key=("m3", len(recs)))
            except Exception:
                pass
    ntree = len(recs)
    # --- causal pairs run on longer inputs (integer coefficients, leading denominator coefficient 1)
    ns = length + 1
    made = 0
    while made < nsys and tries < (ntrees + nsys) * 60:
        tries += 1
        tf = rand_lit(rng, causal=True, tame=True)
        tg = rand_lit(rng, causal=True, tame=True)
        if rng.random() < 0.3:
            tg = {"op": "lit", "n": rand_lit(rng, True, True)["n"], "d": dict(tf["d"])}      # shared denominator
        c = F(rng.choice([-2, -1, 2, 3]))
        e = rng.randint(0, 3)
        # growth screen from the coefficients alone (majorant recursion of the product system)
        prod = majorant({"op": "mul", "l": {"op": "pow", "l": tf, "e": max(e, 1)}, "r": tg})
        ya = []
        for tt in range(length):
            ya.append(sum(prod[0].values()) + sum(v * ya[tt - k] for k, v in prod[1].items() if 0 < k <= tt))
        if 2 * max(ya + [1]) * abs(c) >= LIMIT:
            continue
        info = {"f": tree_str(tf), "g": tree_str(tg), "c": str(c), "e": e, "len": length}
        try:
            Fo, Go = build(al, tf, "float"), build(al, tg, "float")
            xs = lambda: as_input(al, [LinForm.sym(i) for i in range(1, length + 1)])
            V = lambda out: [[list(p) for p in v] for v in vecs(list(out), ns)]

            def times():
                data = xs()
                for _ in range(e):
                    data = list(Fo(data, zero=0))
                return data
            if made % 2:
                # a bank is a list: used once with other members, then given its real members by item assignment,
                # it is the cascade / parallel bank of its CURRENT members
                dummy = al.ZFilter([1, 1], [1])
                casc, par = al.CascadeFilter(dummy, dummy), al.ParallelFilter([dummy, dummy])
                list(casc([1, 2], zero=0))
                list(par([1, 2], zero=0))
                casc.numpoly, par.denpoly
                casc[0], casc[1] = Fo, Go
                par[0:2] = [Fo, Go]
            else:
                casc, par = al.CascadeFilter(Fo, Go), al.ParallelFilter([Fo, Go])
            rec = {"op": "sys", "f": jtree(tf), "g": jtree(tg), "c": [c.numerator, c.denominator], "e": e,
                   "fo": V(Fo(xs(), zero=0)), "go": V(Go(xs(), zero=0)),
                   "addo": V((Fo + Go)(xs(), zero=0)), "subo": V((Fo - Go)(xs(), zero=0)),
                   "mulo": V((Fo * Go)(xs(), zero=0)), "fgo": V(Fo(Go(xs(), zero=0), zero=0)),
                   "gfo": V(Go(Fo(xs(), zero=0), zero=0)), "so": V((int(c) * Fo)(xs(), zero=0)),
                   "po": V(times()) if rng.random() < 0.5 else V((Fo ** e)(xs(), zero=0)),
                   "casco": V(casc(xs(), zero=0)), "paro": V(par(xs(), zero=0)),
                   "cascn": pairs(obs_poly(casc.numpoly)), "cascd": pairs(obs_poly(casc.denpoly)),
                   "parn": pairs(obs_poly(par.numpoly)), "pard": pairs(obs_poly(par.denpoly))}
        except Bad as ex:
            ctx.count(1)
            ctx.violation("C05:sys-inexact", dict(info, why=str(ex)))
            continue
        except Exception as ex:
            ctx.count(1)
            ctx.violation("C05:sys-raises", dict(info, raised="%s: %s" % (type(ex).__name__, str(ex)[:160])))
            continue
        info["shared_denominator"] = tf["d"] == tg["d"] and tf["d"] != {0: F(1)}
        try:
            for key, mk in (("nesto", lambda: al.CascadeFilter(al.ParallelFilter(Fo, Go), Fo)),
                            ("nest2o", lambda: al.ParallelFilter(al.CascadeFilter(Fo, Go), Go))):
                val = V(mk()(xs(), zero=0))
                if encodable({"v": val}):
                    rec[key] = val
        except Bad as ex:
            ctx.count(1)
            ctx.violation("C05:sys-inexact", dict(info, why="nested banks: " + str(ex)))
            continue
        except Exception as ex:
            ctx.count(1)
            ctx.violation("C05:sys-raises", dict(info, raised="nested banks: %s: %s" % (type(ex).__name__, str(ex)[:160])))
            continue
        if not encodable(rec):
            unjudged[0] += 1              # beyond TLC's integers: not judged (the screen above is a heuristic)
            continue
        recs.append(rec)
        meta.append(info)
        made += 1
        ctx.count(1, nontrivial_key=("m3", len(recs)))
    if unjudged[0]:
        ctx.log("M3: %d observations had numbers beyond TLC's integers and were left unjudged" % unjudged[0])
    if unjudged[0] * 5 > len(recs):
        raise tlc.MachineryError("C05 M3: %d of %d observations unjudged (magnitude screen too weak)"
                                 % (unjudged[0], unjudged[0] + len(recs)))
    bad = tracecheck.run_records(ctx, "FilterAlgTrace", {"MaxLen": length, "Cases": "{}"}, recs,
                                 what="C05 recorded filter algebra", chunk=300)
    hard = {}
    ndiag = 0
    for i, c in bad.items():
        r = recs[i - 1]
        if c[0] in ("model-structure", "eq-model"):
            ndiag += 1
            if ndiag <= 3:
                ctx.log("diagnostic (not a violation): record %s differs from the model on %s" % (meta[i - 1], c[0]))
        elif r["op"] == "tree" and c[0] == "defined":
            continue                      # TLC says the tree divides by zero somewhere: outside the property
        elif r["op"] == "tree" and r["raised"]:
            hard[i] = ("raised",)
        else:
            hard[i] = c
    ctx.traces += len(recs) - len(hard)
    ctx.log("M3: %d recorded observations (%d trees / comparisons, %d system pairs) judged by TLC, %d rejected, "
            "%d diagnostics" % (len(recs), ntree, made, len(hard), ndiag))
    if meta:
        ctx.sample({"recorded": meta[0]})
    for i, c in sorted(hard.items()):
        r, mi = recs[i - 1], meta[i - 1]
        if r["op"] == "sys" and c[0] == "parallel-polys" and mi.get("shared_denominator"):
            key = "C05:parallel-polys-shared-denominator"
        elif r["op"] == "eq" and c[0] == "exactly-one":
            key = "C05:eq-ne:%s" % ("differ-in-one-polynomial" if mi["same_n"] != mi["same_d"] else
                                    ("equal" if mi["same_n"] else "differ-in-both"))
        else:
            key = "C05:%s:%s" % (r["op"], c[0])
        ctx.violation(key, dict(mi, clause=c[0]))


def check(ctx):
    al = common.import_audiolazy()
    ctx.rule = ("M2: every dumped state replayed with Fraction and with int/dyadic-float coefficients; non-trivial = "
                "trees with at least one operator, every pair / triple / (filter, scalar, exponent) case; "
                "M3: every recorded observation")
    ctx.assumptions = [
        "coefficients and scalars are exact rationals; filters are RUN only with ints / dyadic floats as "
        "coefficients (the library formats coefficients into source text: C04's assumption; a Fraction as leading "
        "denominator coefficient is mis-formatted there, e.g. ZFilter([1],[Fraction(1,2)]) -- outside C05)",
        "system clauses: causal operands, filters at rest (memory None, zero=0), inputs are symbolic samples",
        "no division by the zero filter, no negative power of it, no substitution of it for z",
        "f ** n as 'applied n times' for n >= 0; powers are integers -2..3",
        "numerator / denominator polynomials are compared as rational functions (cross-multiplication); "
        "polynomial-by-polynomial identity with the operational model and '== is True for every structurally "
        "equal pair' are diagnostics only",
        "linearize() (fractional delays) is not part of the statement and is not checked",
    ]
    if ctx.thorough:
        m2(ctx, al, "FilterAlgC05_thorough.cfg")
        m3(ctx, al, 1500, 250, 10)
    else:
        m2(ctx, al, "FilterAlgC05_quick.cfg")
        m3(ctx, al, 300, 80, 8)
    ctx.exhaustive = True
