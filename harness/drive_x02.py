"""X02 (extension) - filter containers as lists, comb filters, ZFilter properties / linearize, structure of the
designed filters: the parts of lazy_filters.py that C04 / C05 / C06 / C12 do not cover.

M1  TLC: spec/dsp/FilterStruct.tla (EXTENDS Filter and Poly) on the FilterStructQ / T grid: comb cases run on the
    register machine of module Filter and must equal the comb difference equations (fractional delays = linear
    interpolation); container calls step a pull-accounting machine (cascade = composition, parallel = sum over
    a tee, every input item read once); list operations / predicates / polynomial access / ZFilter properties /
    linearize / designed-filter shapes are evaluated by the operational operators and checked against the
    definition layer by the invariants.
M2  spec -> code: every dumped state is replayed on real objects (every alias, construction route, delay and
    coefficient representation) and compared with the value TLC exported.
M3  code -> spec: seeded random larger cases (comb runs, list histories with a final call, ZFilter properties,
    linearize, designed filters with counting parameter streams, comb.tau) recorded from the real code and judged
    by TLC (spec/trace/FilterStructTrace.tla).
"""
import itertools
import math
import os
from fractions import Fraction

import common
import tlaval
import tlc
from exact import LinForm, lin_vec
from x02_lib import (F, INF, Bad, World, Source, rat_of, rat, pynum, exact, poly_of, taps_of, plain, coef_py,
                     is_zero_coef, obs_poly, equiv, show, pairs, vecs, want_vecs, vshow, xs, member_str, flt_member)
import x02_m3

GENERIC = {"cutoff": [0.7, 1.1, 0.4, 2.3, 1.9, 0.9, 2.8, 0.2], "freq": [0.6, 1.3, 0.8, 2.1, 1.7, 0.3, 2.6, 1.0],
           "bandwidth": [0.2, 0.05, 0.4, 0.1, 0.3, 0.15, 0.25, 0.08]}


def pow2(c):
    c = abs(F(c))
    return c != 0 and (c.numerator & (c.numerator - 1)) == 0 and (c.denominator & (c.denominator - 1)) == 0


def dyadic(c):
    c = F(c)
    return (c.denominator & (c.denominator - 1)) == 0


class Replayer(object):
    def __init__(self, ctx, al, maxlen, maxmem):
        self.ctx, self.al, self.maxlen, self.maxmem = ctx, al, maxlen, maxmem
        self.ns = maxlen + 1 + maxmem
        self.diag = {}
        self.done = {}

    # ---- reporting --------------------------------------------------------------------------------
    def note(self, what, detail):
        if what not in self.diag:
            self.diag[what] = 0
            self.ctx.log("diagnostic (not a violation): %s %s" % (what, detail))
        self.diag[what] += 1

    def viol(self, key, detail):
        self.ctx.violation("X02:" + key, detail)

    def attempt(self, key, info, fn):
        """run fn(); an unexpected exception is a violation `key-raises`; returns (ok, value)"""
        try:
            return True, fn()
        except Bad as ex:
            self.viol(key + "-inexact", dict(info, why=str(ex)))
        except Exception as ex:
            self.viol(key + "-raises", dict(info, raised="%s: %s" % (type(ex).__name__, str(ex)[:160])))
        return False, None

    def state(self, st, idx):
        c = st["case"]
        kind = c["kind"]
        if kind in ("comb", "call"):
            self.done[kind] = self.done.get(kind, 0) + 1
            getattr(self, "k_" + kind)(c, st, idx)
        elif st["err"] == "evaluated":
            tag = kind + (":" + c["op"] if kind == "listop" else "")
            self.done[tag] = self.done.get(tag, 0) + 1
            getattr(self, "k_" + kind)(c, st["res"], idx)

    # ---- A. comb -----------------------------------------------------------------------------------
    def comb_names(self, form):
        for names in self.al.comb.keys():
            if form in names:
                return names
        raise tlc.MachineryError("comb has no strategy %s" % form)

    def comb_build(self, case, alias, delay_as, tau_route=0):
        al = self.al
        D = rat_of(case["delay"])
        d = int(D) if (D.denominator == 1 and delay_as == "int") else float(D)
        fn = al.comb[alias]
        if case["form"] == "tau":
            f = (fn(d), fn(d, float("inf")), fn(d, tau=al.inf))[tau_route % 3]
        else:
            alpha = coef_py(al, case["alpha"])
            f = (fn(d, alpha), fn(d, alpha=alpha), fn(delay=d, alpha=alpha))[tau_route % 3]
        return f.linearize() if case["lin"] else f

    def comb_info(self, case):
        a = case["alpha"]
        return {"form": case["form"], "delay": str(rat_of(case["delay"])),
                "alpha": str(rat_of(a["v"])) if a["k"] == "c" else
                "Stream(%s)%s" % (",".join(str(rat_of(v)) for v in a["s"]), "" if a["per"] else " finite"),
                "linearize": case["lin"], "memory": case["mem"], "zero": case["zero"]}

    def k_comb(self, case, st, idx):
        al, maxlen = self.al, self.maxlen
        n = st["n"]
        a = case["alpha"]
        runlen = maxlen if (a["k"] == "c" or a["per"]) else min(maxlen, len(a["s"]))
        refused = st["err"] == "ValueError"
        noncausal = any(not is_zero_coef(c) for c in case["b"][:case["adv"]])
        if noncausal and not refused:
            return                                   # the refusal is observed on the Refuse successor
        terminal = refused or n == runlen
        names = self.comb_names(case["form"])
        aliases = names if terminal else (names[idx % len(names)],)
        D = rat_of(case["delay"])
        delays = ("int", "float") if (terminal and D.denominator == 1) else ("int",)
        lm = len(case["a"]) - 1
        info = self.comb_info(case)
        nfeed = maxlen if (terminal and not refused) else n
        r = 0
        for alias in aliases:
            for das in delays:
                for znum in ((0, 0.0) if case["zero"] == "num" and terminal else (0,)):
                    r += 1
                    i2 = dict(info, alias=alias, delay_given_as=das, n=n, fed=nfeed)
                    self.ctx.count(1, nontrivial_key=("comb", str(sorted(info.items())), n) if n >= 2 else None)
                    zero = LinForm.sym(maxlen + 1) if case["zero"] == "sym" else znum
                    kw = {"zero": zero}
                    if case["mem"] == "exact":
                        kw["memory"] = [LinForm.sym(maxlen + 1 + j) for j in range(1, lm + 1)]
                    try:
                        f = self.comb_build(case, alias, das, r)
                        out = list(f(xs(nfeed), **kw))
                        err = "none"
                    except ValueError as ex:
                        out, err = [], "ValueError"
                    except Exception as ex:
                        self.viol("comb-%s-raises" % case["form"], dict(i2, raised="%s: %s" % (type(ex).__name__, str(ex)[:160])))
                        continue
                    want = want_vecs(st["out"])
                    try:
                        got = vecs(out, self.ns)
                    except Bad as ex:
                        self.viol("comb-%s-inexact" % case["form"], dict(i2, why=str(ex)))
                        continue
                    if err != st["err"] or got != want:
                        cls = "refusal" if (refused or err != "none") else \
                            ("fractional-stream-alpha" if a["k"] == "s" and D.denominator != 1 else
                             "fractional" if D.denominator != 1 else "equation")
                        self.viol("comb-%s-%s" % (case["form"], cls),
                                  dict(i2, expected_err=st["err"], err=err, expected=vshow(want), observed=[repr(o) for o in out]))
                    if terminal and err == "none" and got == want and a["k"] == "s" and das == "int" and alias == names[0]:
                        # copy(): a tee copy of Stream coefficients - the copy and the original can both be run
                        try:
                            f2 = self.comb_build(case, alias, das, r)
                            g2 = f2.copy()
                            kw2 = dict(kw)
                            o_copy = vecs(list(g2(xs(nfeed), **kw2)), self.ns)
                            o_orig = vecs(list(f2(xs(nfeed), **kw2)), self.ns)
                            if o_copy != want or o_orig != want or type(g2) is not type(f2):
                                self.viol("copy-stream-coefficients", dict(i2, expected=vshow(want), copy=vshow(o_copy), original=vshow(o_orig)))
                        except Exception as ex:
                            self.viol("copy-stream-coefficients", dict(i2, raised="%s: %s" % (type(ex).__name__, str(ex)[:160])))
                    if terminal and err == "none":
                        # the operational layer's coefficient lists (more specific than the equations): diagnostic
                        try:
                            m = flt_member(f.numpoly, f.denpoly)
                            if a["k"] == "c" and (m["b"], m["a"], m["adv"]) != (plain(case["b"]), plain(case["a"]), case["adv"]):
                                self.note("comb coefficients differ from the operational model", dict(i2, observed=member_str(m)))
                        except Bad:
                            pass
        if idx % 397 == 0 and terminal:
            self.ctx.sample({"comb": info, "n": n})

    # ---- B. containers -----------------------------------------------------------------------------
    def k_call(self, case, st, idx):
        al, maxlen = self.al, self.maxlen
        box = case["c"]
        n = st["n"]
        info = {"container": member_str(box), "zero": case["zero"], "n": n}
        refused = st["err"] == "ValueError"
        expect_refusal = any(x["m"] == "flt" and any(not is_zero_coef(c) for c in x["b"][:x["adv"]])
                             for x in leaves(box))
        if expect_refusal and not refused:
            return
        routes = ("iter", "stream") if (n == maxlen or refused) else (("iter", "stream")[idx % 2],)
        for route in routes:
            i2 = dict(info, input=route)
            self.ctx.count(1, nontrivial_key=("call", info["container"], case["zero"], n) if n >= 2 and len(box["items"]) >= 2 else None)
            W = World(al)
            c = W.container(box["cls"], box["items"])
            src = Source(xs(maxlen))
            arg = src if route == "iter" else al.Stream(src)
            zero = LinForm.sym(maxlen + 1) if case["zero"] == "sym" else 0
            try:
                r = c(arg, zero=zero)
                reads0 = src.n
                got_raw = list(itertools.islice(iter(r), n))
                reads = src.n
                rest = list(r) if n == maxlen else []
                err = "none"
            except ValueError:
                err, got_raw, reads0, reads, rest = "ValueError", [], 0, 0, []
            except Exception as ex:
                self.viol("call-raises", dict(i2, raised="%s: %s" % (type(ex).__name__, str(ex)[:160])))
                continue
            if err != st["err"]:
                self.viol("call-refusal", dict(i2, expected_err=st["err"], err=err))
                continue
            if refused:
                continue
            ok, got = self.attempt("call", i2, lambda: vecs(got_raw, self.ns))
            if not ok:
                continue
            want = want_vecs(st["out"])
            shape = "empty-" if not box["items"] else ""
            if got != want:
                self.viol("call-%s%s" % (shape, "cascade" if box["cls"] == "C" else "parallel"),
                          dict(i2, expected=vshow(want), observed=[repr(o) for o in got_raw]))
            if reads0 != 0:
                self.viol("call-reads-at-construction", dict(i2, reads=reads0))
            if reads != st["res"]["reads"]:
                self.viol("call-reads", dict(i2, expected=st["res"]["reads"], reads=reads,
                                             why="input items delivered after %d outputs" % n))
            if rest:
                self.viol("call-length", dict(i2, extra=[repr(o) for o in rest]))
            if not box["items"] and box["cls"] == "P" and n == maxlen and case["zero"] == "sym":
                pos = list(W.container("P", [])(xs(2), None, zero))
                if any(lin_vec(v, self.ns) != lin_vec(zero, self.ns) for v in pos):
                    self.note("an empty ParallelFilter ignores a zero value given positionally (yields 0.0)", i2)
            if not box["items"] and box["cls"] == "C" and not isinstance(r, al.Stream):
                self.note("an empty CascadeFilter returns its argument itself (not a Stream)", i2)
        if idx % 311 == 0 and n == maxlen:
            self.ctx.sample({"call": info})

    def k_listop(self, case, res, idx):
        al = self.al
        op = case["op"]
        has_seq = any(a["m"] == "seq" for a in case["args"]) or case["x"]["m"] == "seq"
        routes = ("list", "tuple", "gen") if has_seq else ("list",)
        for route in routes:
            W = World(al)
            info = {"class": case["cls"], "args": [member_str(a) for a in case["args"]], "op": op, "given_as": route}
            self.ctx.count(1, nontrivial_key=("listop", str(info)))
            ok, b = self.attempt("list-build", info, lambda: W.container(case["cls"], case["args"], route))
            if not ok:
                continue
            built_args = None
            want = plain(res["v"]) if "v" in res else None

            def same_box(obj, w, what, type_matters=True):
                d = W.describe(obj)
                if d["items"] != w["items"] or (type_matters and d["cls"] != w["cls"]):
                    self.viol("list-%s" % op, dict(info, what=what, expected=member_str(w), observed=member_str(d)))
                    return False
                if d["cls"] != w["cls"]:
                    self.note("result class differs from the operational model", dict(info, expected=w["cls"], observed=d["cls"]))
                return True
            try:
                if op == "build":
                    same_box(b, want, "constructor")
                    if type(b) is not W.cls[case["cls"]]:
                        self.viol("list-build", dict(info, what="type", observed=type(b).__name__))
                elif op == "append":
                    x = W.build(case["x"])
                    info["x"] = member_str(case["x"])
                    r = b.append(x)
                    same_box(b, want, "after append")
                    if r is not None or b[-1] is not x:
                        self.viol("list-append", dict(info, what="return value / identity of the appended member"))
                elif op == "extend":
                    info["x"] = member_str(case["x"])
                    b.extend(W.build(case["x"], route))
                    same_box(b, want, "after extend")
                elif op == "concat":
                    info["x"] = member_str(case["x"])
                    before = W.describe(b)
                    r = b + W.build(case["x"], "list" if route == "gen" else route) if case["x"]["m"] != "seq" or route != "tuple" \
                        else b + list(W.build(case["x"], "list"))
                    same_box(r, want, "self + other")
                    if W.describe(b) != before or r is b:
                        self.viol("list-concat", dict(info, what="the left operand was changed"))
                elif op == "rconcat":
                    info["x"] = member_str(case["x"])
                    left = W.build(case["x"], "list")
                    left = list(left) if not isinstance(left, list) or type(left) is not list else left
                    r = left + b
                    same_box(r, want, "list + self", type_matters=False)
                elif op == "times":
                    info["k"] = case["k"]
                    same_box(b * case["k"], want, "self * k")
                    same_box(case["k"] * b, want, "k * self")
                elif op == "index":
                    info["k"] = case["k"]
                    same_box(b, want, "constructor")
                    try:
                        r, err = b[case["k"]], "none"
                    except IndexError:
                        r, err = None, "IndexError"
                    if err != res["r"]["err"] or (err == "none" and W.describe(r) != plain(res["r"]["v"])):
                        self.viol("list-index", dict(info, expected=plain(res["r"]), observed_err=err))
                elif op == "slice":
                    info["slice"] = [case["lo"], case["hi"]]
                    same_box(b[case["lo"]:case["hi"]], plain(res["r"]), "self[lo:hi]", type_matters=False)
                elif op == "cmp":
                    info["x"] = member_str(case["x"])
                    o = W.build(case["x"], "list")
                    for (l, r_, what) in ((b, o, "self ? other"), (o, b, "other ? self")):
                        eq, ne = (l == r_), (l != r_)
                        if not isinstance(eq, bool) or not isinstance(ne, bool):
                            self.viol("list-cmp-type", dict(info, what=what, eq=repr(eq), ne=repr(ne)))
                        elif eq != res["eq"] or ne != res["ne"]:
                            self.viol("list-cmp", dict(info, what=what, expected={"eq": res["eq"], "ne": res["ne"]},
                                                        observed={"eq": eq, "ne": ne}))
                    if (b == b) is not True or (b != b) is not False:
                        self.viol("list-cmp", dict(info, what="self ? self"))
                elif op == "pred":
                    same_box(b, want, "constructor")
                    obs = {"linear": b.is_linear(), "lti": b.is_lti(), "causal": b.is_causal()}
                    exp = {k: res[k] for k in obs}
                    if obs != exp:
                        bad = [k for k in obs if obs[k] != exp[k]]
                        self.viol("pred-%s" % bad[0], dict(info, expected=exp, observed=obs))
                    cs = b.callables
                    dc = [W.describe(x) for x in cs]
                    if dc != plain(res["callables"]):
                        self.viol("callables", dict(info, expected=[member_str(x) for x in plain(res["callables"])],
                                                    observed=[member_str(x) for x in dc]))
                    for x, y in zip(cs, b):
                        if callable(y) and x is not y:
                            self.viol("callables", dict(info, what="a callable member was replaced"))
                        if not callable(y) and type(x) is not al.lazy_filters.LinearFilter:
                            self.viol("callables", dict(info, what="a number was not cast to LinearFilter", observed=type(x).__name__))
                    # ordering operators are outside the listed scope: observed only
                    if len(b) and all(x["m"] == "num" for x in want["items"]):
                        lt = (b < type(b)(list(b)))
                        if not isinstance(lt, bool):
                            self.note("ordering comparison of two containers returns %s instead of a bool" % type(lt).__name__,
                                      dict(info, value=repr(list(lt))))
                elif op == "polys":
                    self.polys(W, b, want, res["r"], info)
            except Bad as ex:
                self.viol("list-%s-inexact" % op, dict(info, why=str(ex)))
            except Exception as ex:
                self.viol("list-%s-raises" % op, dict(info, raised="%s: %s" % (type(ex).__name__, str(ex)[:160])))
        if idx % 211 == 0:
            self.ctx.sample({"listop": {"class": case["cls"], "args": [member_str(a) for a in case["args"]], "op": op}})

    def polys(self, W, b, want, r, info):
        obs = {}
        for attr in ("numpoly", "denpoly", "freq_response"):
            try:
                obs[attr] = ("none", getattr(b, attr) if attr != "freq_response" else b.freq_response(0))
            except AttributeError as ex:
                obs[attr] = ("AttributeError", str(ex)[:80])
            except Exception as ex:
                obs[attr] = (type(ex).__name__, str(ex)[:80])
        errs = {k: v[0] for k, v in obs.items()}
        if r["err"] == "AttributeError":
            if set(errs.values()) != {"AttributeError"}:
                self.viol("polys-nonlinear-accepted", dict(info, observed=errs))
            return
        only_numbers = all(x["m"] == "num" for x in want["items"])
        if set(errs.values()) != {"none"}:
            key = "polys-raises"
            if only_numbers and want["cls"] == "P" and errs["freq_response"] == "none":
                key = "polys-parallel-numbers-only"
            self.viol(key, dict(info, observed={k: list(v) if v[0] != "none" else "ok" for k, v in obs.items()}))
            return
        if not all(x["m"] in ("flt", "num") for x in want["items"]):
            return                                                  # nested containers: C12 covers their responses
        wv = (poly_of(r["v"]["n"]), poly_of(r["v"]["d"]))
        o = (obs_poly(obs["numpoly"][1]), obs_poly(obs["denpoly"][1]))
        if not equiv(o, wv):
            self.viol("polys-value", dict(info, expected=[show(wv[0]), show(wv[1])], observed=[show(o[0]), show(o[1])]))
        d1 = sum(wv[1].values())
        if d1 != 0:
            h = complex(obs["freq_response"][1])
            e = float(sum(wv[0].values()) / d1)
            if abs(h - e) > 1e-9 * (1 + abs(e)):
                self.viol("polys-freq-response", dict(info, expected=e, observed=repr(h)))

    # ---- C. ZFilter values ---------------------------------------------------------------------------
    def kinds(self, *polys):
        return ("frac", "float") if all(dyadic(c) for p in polys for c in p.values()) else ("frac",)

    @staticmethod
    def num(c, kind):
        return F(c) if kind == "frac" else pynum(c)

    def k_zf(self, case, res, idx):
        al = self.al
        n, d = poly_of(case["n"]), poly_of(case["d"])
        wn, wd = poly_of(res["n"]), poly_of(res["d"])
        for kind in self.kinds(n, d):
            for cls in (al.ZFilter, al.lazy_filters.LinearFilter):
                info = {"num": show(n), "den": show(d), "coefficients": kind, "class": cls.__name__}
                self.ctx.count(1, nontrivial_key=("zf", str(info)))
                ok, f = self.attempt("zf-build", info, lambda: cls({k: self.num(c, kind) for k, c in n.items()},
                                                                    {k: self.num(c, kind) for k, c in d.items()}))
                if not ok:
                    continue
                try:
                    on, od = obs_poly(f.numpoly), obs_poly(f.denpoly)
                    if not equiv((on, od), (wn, wd)) or min(od) != 0:
                        self.viol("zf-value", dict(info, expected=[show(wn), show(wd)], observed=[show(on), show(od)]))
                        continue
                    if (on, od) != (wn, wd):
                        self.note("same rational function, other polynomials than the operational model", info)
                    self.zf_props(f, on, od, res, info)
                except Bad as ex:
                    self.viol("zf-inexact", dict(info, why=str(ex)))
                except Exception as ex:
                    self.viol("zf-props-raises", dict(info, raised="%s: %s" % (type(ex).__name__, str(ex)[:160])))

    def zf_props(self, f, on, od, res, info):
        """numlist / denlist / numdict / dendict / numpolyz / denpolyz / is_causal / is_lti / __iter__ / copy / hash"""
        def dense(name):
            try:
                v = getattr(f, name)
                return "none", [exact(x) for x in v]
            except ValueError:
                return "ValueError", None
        for name, alias, key in (("numlist", "numerator", "numlist"), ("denlist", "denominator", "denlist")):
            w = res[key]
            for nm in (name, alias):
                err, v = dense(nm)
                wv = [rat_of(x) for x in w["v"]] if w["err"] == "none" else None
                if err != w["err"] or v != wv:
                    self.viol("zf-%s" % name, dict(info, attribute=nm, expected=[w["err"], str(wv)], observed=[err, str(v)]))
        if f.is_causal() != res["causal"]:
            self.viol("zf-is_causal", dict(info, expected=res["causal"], observed=f.is_causal()))
        if f.is_lti() is not True:
            self.viol("zf-is_lti", dict(info, observed=f.is_lti()))
        nd, dd = f.numdict, f.dendict
        if {k: exact(v) for k, v in nd.items()} != on or {k: exact(v) for k, v in dd.items()} != od \
                or list(nd) != sorted(nd) or list(dd) != sorted(dd):
            self.viol("zf-dict", dict(info, numdict=repr(nd), dendict=repr(dd)))
        it = list(f)
        if len(it) != 2 or dict(it[0]) != dict(nd) or dict(it[1]) != dict(dd):
            self.viol("zf-iter", dict(info, observed=repr(it)))
        for name in ("numpolyz", "denpolyz"):
            w = res[name]
            try:
                err, v = "none", obs_poly(getattr(f, name))
            except ValueError:
                err, v = "ValueError", None
            wv = poly_of(w["v"]) if w["err"] == "none" else None
            if err != w["err"] or v != wv:
                self.viol("zf-%s" % name, dict(info, expected=[w["err"], show(wv) if wv is not None else None],
                                                observed=[err, show(v) if v is not None else None]))
        c = f.copy()
        if type(c) is not type(f) or c is f or c.numpoly is f.numpoly or c.denpoly is f.denpoly \
                or not (c == f) or (c != f) or hash(c) != hash(f) \
                or (obs_poly(c.numpoly), obs_poly(c.denpoly)) != (on, od):
            self.viol("zf-copy", dict(info, copy_type=type(c).__name__))

    def k_cast(self, case, res, idx):
        al = self.al
        n, d = poly_of(case["n"]), poly_of(case["d"])
        den = case["den"]
        want = (poly_of(res["v"]["n"]), poly_of(res["v"]["d"]))
        dp = []
        if den["m"] == "zf":
            dp = [poly_of(den["n"]), poly_of(den["d"])]
        for kind in self.kinds(n, d, *dp):
            if kind == "float" and den["m"] == "num" and not pow2(rat_of(den["c"])):
                continue                                 # the cast divides by the number: exact in floats for +-2^k only
            for cls in (al.ZFilter, al.lazy_filters.LinearFilter):
                info = {"num": show(n), "den": show(d), "coefficients": kind, "class": cls.__name__,
                        "denominator": "none" if den["m"] == "none" else (str(rat_of(den["c"])) if den["m"] == "num"
                                                                         else [show(dp[0]), show(dp[1])])}
                self.ctx.count(1, nontrivial_key=("cast", str(info)))
                f = al.ZFilter({k: self.num(c, kind) for k, c in n.items()}, {k: self.num(c, kind) for k, c in d.items()})
                if den["m"] == "none":
                    mk = lambda: cls(f)
                elif den["m"] == "num":
                    c0 = self.num(rat_of(den["c"]), kind)
                    mk = lambda: cls(f, c0)
                else:
                    g = al.ZFilter({k: self.num(c, kind) for k, c in dp[0].items()}, {k: self.num(c, kind) for k, c in dp[1].items()})
                    mk = lambda: cls(f, g)
                ok, h = self.attempt("cast", info, mk)
                if not ok:
                    continue
                ok, o = self.attempt("cast", info, lambda: (obs_poly(h.numpoly), obs_poly(h.denpoly)))
                if not ok:
                    continue
                if type(h) is not cls or not equiv(o, want) or min(o[1]) != 0:
                    self.viol("cast-value", dict(info, expected=[show(want[0]), show(want[1])], observed=[show(o[0]), show(o[1])],
                                                 type=type(h).__name__))

    def k_zpow(self, case, res, idx):
        al = self.al
        k = case["k"]
        wn, wd = poly_of(res["n"]), poly_of(res["d"])
        for kk in (k, float(k)):
            info = {"k": repr(kk)}
            self.ctx.count(1, nontrivial_key=("zpow", repr(kk)))
            ok, f = self.attempt("zpow", info, lambda: al.z ** kk)
            if not ok:
                continue
            try:
                o = (obs_poly(f.numpoly), obs_poly(f.denpoly))
                if o != (wn, wd) or f.is_causal() != res["causal"] or f.is_lti() is not True:
                    self.viol("zpow-value", dict(info, expected=[show(wn), show(wd), res["causal"]],
                                                 observed=[show(o[0]), show(o[1]), f.is_causal()]))
                if dict(f.numdict) != {p: 1 for p in wn} or not isinstance(f, al.ZFilter):
                    self.viol("zpow-value", dict(info, numdict=repr(f.numdict)))
                try:
                    nl = ("none", [exact(x) for x in f.numlist])
                except ValueError:
                    nl = ("ValueError", None)
                w = res["numlist"]
                if nl != (w["err"], [rat_of(x) for x in w["v"]] if w["err"] == "none" else None):
                    self.viol("zpow-numlist", dict(info, observed=str(nl), expected=w["err"]))
                try:
                    out = ("none", list(f(xs(3), zero=0)))
                except ValueError:
                    out = ("ValueError", None)
                if (out[0] == "ValueError") != (k > 0):
                    self.viol("zpow-run", dict(info, observed=out[0], why="only a non-causal filter refuses to run"))
                back = f / (al.z ** kk)
                if (obs_poly(back.numpoly), obs_poly(back.denpoly)) != (poly_of(res["back"]["n"]), poly_of(res["back"]["d"])):
                    self.viol("zpow-back", dict(info, observed=[show(obs_poly(back.numpoly)), show(obs_poly(back.denpoly))]))
            except Bad as ex:
                self.viol("zpow-inexact", dict(info, why=str(ex)))
            except Exception as ex:
                self.viol("zpow-raises", dict(info, raised="%s: %s" % (type(ex).__name__, str(ex)[:160])))

    def k_lin(self, case, res, idx):
        al = self.al
        fn = [(rat_of(t[0]), rat_of(t[1]["v"])) for t in case["n"]]
        fd = [(rat_of(t[0]), rat_of(t[1]["v"])) for t in case["d"]]
        wn = {k: rat_of(c["v"]) for k, c in taps_of(res["n"]).items()}
        wd = {k: rat_of(c["v"]) for k, c in taps_of(res["d"]).items()}
        neg = any(p < 0 and p.denominator != 1 for p, _ in fn + fd)

        def key(p):
            return int(p) if p.denominator == 1 else float(p)
        for route in ("dict", "zexpr"):
            for cls in (al.ZFilter, al.lazy_filters.LinearFilter):
                if route == "zexpr" and cls is not al.ZFilter:
                    continue
                info = {"num": [[str(p), str(c)] for p, c in fn], "den": [[str(p), str(c)] for p, c in fd],
                        "built_as": route, "class": cls.__name__}
                self.ctx.count(1, nontrivial_key=("lin", str(info)))
                if route == "dict":
                    mk = lambda: cls({key(p): pynum(c) for p, c in fn}, {key(p): pynum(c) for p, c in fd})
                else:
                    z = al.z
                    mk = lambda: sum(pynum(c) * z ** -key(p) for p, c in fn) / sum(pynum(c) * z ** -key(p) for p, c in fd)
                ok, f = self.attempt("linearize-build", info, mk)
                if not ok:
                    continue
                ok, g = self.attempt("linearize", info, lambda: f.linearize())
                if not ok:
                    continue
                try:
                    on, od = dict(g.numpoly.terms()), dict(g.denpoly.terms())
                    if not all(isinstance(k, int) and not isinstance(k, bool) for k in list(on) + list(od)):
                        self.viol("linearize-keys", dict(info, observed=[repr(on), repr(od)]))
                        continue
                    on = {k: exact(v) for k, v in on.items() if exact(v) != 0}
                    od = {k: exact(v) for k, v in od.items() if exact(v) != 0}
                    if (on, od) != (wn, wd):
                        self.viol("linearize-negative-fractional" if neg else "linearize-value",
                                  dict(info, expected=[show(wn), show(wd)], observed=[show(on), show(od)]))
                    if type(g) is not type(f):
                        self.viol("linearize-type", dict(info, observed=type(g).__name__))
                    # a filter with a fractional power cannot be listed nor run before linearize()
                    for what, call in (("numlist", lambda: (f.numlist, f.denlist)), ("run", lambda: list(f(xs(2), zero=0)))):
                        try:
                            call()
                            raised = False
                        except Exception:
                            raised = True
                        causal_int = res["runnable"] and not any(p < 0 for p, _ in fn)
                        if res["runnable"] and causal_int and raised:
                            self.viol("linearize-%s" % what, dict(info, why="integer powers but refused"))
                        if not res["runnable"] and not raised:
                            self.viol("linearize-%s" % what, dict(info, why="a fractional power was accepted"))
                except Exception as ex:
                    self.viol("linearize-raises", dict(info, raised="%s: %s" % (type(ex).__name__, str(ex)[:160])))

    # ---- D. designed filters -----------------------------------------------------------------------
    def k_design(self, case, res, idx):
        al = self.al
        fam, name, S = case["fam"], case["name"], set(case["S"])
        sd = getattr(al, fam)
        params = ("freq", "bandwidth") if fam == "resonator" else ("cutoff",)
        shape = res["shape"]
        info = {"design": "%s.%s" % (fam, name), "streams": sorted(S), "input_length": case["inlen"],
                "stream_lengths": [l if l < INF else "endless" for l in case["lens"]]}
        self.ctx.count(1, nontrivial_key=("design", str(info)))
        access = [lambda: sd[name], lambda: getattr(sd, name)]
        if res_default(fam) == name:
            access.append(lambda: sd)
        for ai, acc in enumerate(access):
            srcs, args = {}, []
            for p, ln in zip(params, case["lens"]):
                vals = GENERIC[p]
                if p in S:
                    srcs[p] = Source(cycle=vals) if ln >= INF else Source(vals[:ln])
                    args.append(al.Stream(srcs[p]))
                else:
                    args.append(vals[0])
            i2 = dict(info, access=("item", "attribute", "default call")[ai])
            ok, f = self.attempt("design-build", i2, lambda: acc()(*args))
            if not ok:
                continue
            try:
                nk = {k: isinstance(v, al.Stream) for k, v in f.numpoly.terms()}
                dk = {k: isinstance(v, al.Stream) for k, v in f.denpoly.terms()}
                obs = {"num": sorted(nk), "den": sorted(dk), "numS": sorted(k for k in nk if nk[k]),
                       "denS": sorted(k for k in dk if dk[k]), "den0one": f.denpoly[0] == 1 and not isinstance(f.denpoly[0], al.Stream)}
                exp = {k: (sorted(shape[k]) if k != "den0one" else shape[k]) for k in obs}
                if obs != exp or not isinstance(f, al.ZFilter):
                    self.viol("design-shape", dict(i2, expected=exp, observed=obs))
                    continue
                if any(s.n for s in srcs.values()):
                    self.viol("design-reads-at-construction", dict(i2, reads={p: s.n for p, s in srcs.items()}))
                inp = [1., -2., 3., .5, -1., 2., 4., -3.][:case["inlen"]]
                r = f(inp, zero=0.)
                if any(s.n for s in srcs.values()):
                    self.viol("design-reads-at-construction", dict(i2, reads={p: s.n for p, s in srcs.items()}, when="call"))
                out = list(r)
                nout = res["nout"]
                if len(out) != nout:
                    self.viol("design-length", dict(i2, expected=nout, observed=len(out)))
                for p, ln in zip(params, case["lens"]):
                    if p in S and not (nout <= srcs[p].n <= min(nout + 1, ln)):
                        self.viol("design-reads", dict(i2, parameter=p, reads=srcs[p].n, outputs=nout))
                if S and all(l >= INF for l in case["lens"]) and ai == 0:
                    # a constant stream stands for the constant
                    a2 = [al.Stream(GENERIC[p][0]) if p in S else GENERIC[p][0] for p in params]
                    a3 = [GENERIC[p][0] for p in params]
                    o2, o3 = list(sd[name](*a2)(inp, zero=0.)), list(sd[name](*a3)(inp, zero=0.))
                    if o2 != o3:
                        self.viol("design-const-stream", dict(i2, constant=o3, stream=o2))
            except Exception as ex:
                self.viol("design-raises", dict(i2, raised="%s: %s" % (type(ex).__name__, str(ex)[:160])))
        if idx % 97 == 0:
            self.ctx.sample({"design": info})

    def k_names(self, case, res, idx):
        al = self.al
        fam = case["fam"]
        sd = getattr(al, fam)
        want = [tuple(t) for t in res["names"]]
        info = {"dictionary": fam}
        self.ctx.count(1, nontrivial_key=("names", fam))
        try:
            keys = list(sd.keys())
            if sorted(keys) != sorted(want):
                self.viol("names", dict(info, expected=want, observed=keys))
                return
            for t in want:
                fn = sd[t[0]]
                for nm in t:
                    if sd[nm] is not fn or getattr(sd, nm) is not fn:
                        self.viol("names-alias", dict(info, name=nm, of=t[0]))
            if sd.default is not sd[res["default"]]:
                self.viol("names-default", dict(info, expected=res["default"]))
            if len(list(sd)) != len(want) or len(sd) != len(want):
                self.viol("names", dict(info, what="number of strategies", observed=len(sd)))
        except Exception as ex:
            self.viol("names-raises", dict(info, raised="%s: %s" % (type(ex).__name__, str(ex)[:160])))


def res_default(fam):
    return {"lowpass": "pole", "highpass": "z", "resonator": "poles_exp", "comb": "fb"}[fam]


def leaves(box):
    for x in box["items"]:
        if x["m"] == "box":
            for y in leaves(x):
                yield y
        else:
            yield x


NEED = ("comb", "call", "listop:build", "listop:append", "listop:extend", "listop:concat", "listop:rconcat", "listop:times",
        "listop:index", "listop:slice", "listop:cmp", "listop:pred", "listop:polys", "zf", "cast", "zpow", "lin", "design", "names")


def m2(ctx, al, module, cfg, maxlen, maxmem):
    d = tlc.scratch_dir("x02")
    dump = os.path.join(d, "states")
    r = tlc.require_ok(tlc.run(module, cfg, dump=dump, coverage=True, timeout=2400), module,
                       need_actions=("CombRun", "CombRefuse", "CallStep", "CallRefuse", "Eval"))
    ctx.add_tlc(r, "FilterStruct (X02 grid): comb machine == comb equations, container calls, list laws, ZFilter properties, "
                   "linearize, designed-filter shapes")
    ctx.log("M1: TLC %d distinct states in %.1fs" % (r.distinct, r.wall))
    rp = Replayer(ctx, al, maxlen, maxmem)
    n = 0
    for st in tlaval.read_dump(dump + ".dump"):
        n += 1
        rp.state(st, n)
    if n != r.distinct:
        raise tlc.MachineryError("dump has %d states, TLC reported %d" % (n, r.distinct))
    for k in NEED:
        if not rp.done.get(k):
            raise tlc.MachineryError("FilterStruct: no '%s' case was evaluated (vacuous)" % k)
    ctx.traces += n
    ctx.log("M2: %d spec states replayed on the real objects; %d evaluations" % (n, ctx.evaluations))
    for k, v in rp.diag.items():
        ctx.log("diagnostic total: %s: %d" % (k, v))


def check(ctx):
    al = common.import_audiolazy()
    ctx.rule = ("M2: every dumped state replayed through every alias / construction route / coefficient representation; "
                "non-trivial = comb runs and container calls with >= 2 outputs (calls: >= 2 members), every list / "
                "property / linearize / design case; M3: every recorded observation")
    ctx.assumptions = [
        "comb: alpha is an int or a dyadic float (or a Stream of them), delays are k, k + 1/4, k + 1/2, k + 3/4 >= 0 "
        "(negative only for the refusal of comb.ff); 1 - alpha # 0 for delay 0; a Stream alpha needs delay >= 1; "
        "comb.tau is exact only for tau = inf (finite tau: the coefficient is compared with e ** (-delay / tau) of libm)",
        "containers: members are ZFilter objects (causal LTI ones when called or asked for polynomials), numbers, a "
        "callable that is no LinearFilter, nested Cascade / Parallel containers; a list / tuple / generator / FilterList "
        "only as the sole constructor argument; filters are called at rest (memory None), zero by keyword",
        "numpoly / denpoly / freq_response of an EMPTY container (TypeError in the code) are not part of the statement",
        "ordering comparisons (< <= > >=) of containers, plain-list type of slices and of list + container: observed, "
        "reported as diagnostics only",
        "ZFilter values: exact rational coefficients (Fractions, and ints / dyadic floats); LinearFilter(f, den) with den a "
        "number or a ZFilter; == only on LTI filters",
        "linearize() on literal polynomials: constant coefficients, denominators that contain the power 0 and do not cancel "
        "entirely; Stream coefficients are linearized through the comb cases",
        "designed filters: generic parameter values strictly inside (0, pi) other than pi/2 (no coefficient vanishes); "
        "only orders, presence of coefficients, Stream-ness, read accounting, names - no numeric design contract (C13)",
    ]
    if ctx.thorough:
        m2(ctx, al, "FilterStructT", "FilterStructT.cfg", 7, 6)
        x02_m3.m3(ctx, al, scale=16)
    else:
        m2(ctx, al, "FilterStructQ", "FilterStructQ.cfg", 5, 4)
        x02_m3.m3(ctx, al, scale=1)
    ctx.exhaustive = True
