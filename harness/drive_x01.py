"""X01 (extension) - lazy_text and the small numeric helpers.

Covers float_str (frac / pi / auto), multiplication_formatter / pair_strings_sum_formatter and the str() of
Poly / ZFilter, rst_table, small_doc, format_docstring, rint, almost_eq (bits / diff), sHz, str2midi /
midi2str / midi2freq / freq2midi / str2freq / freq2str, octaves.

M1  TLC: spec/core/Text.tla (+ TextNum, TextFmt, Chars) on the TextX01Q/T grid: every helper's operational
    steps (shaped like the Python statements) refine the documented behaviour (readers that parse the produced
    text back to exact rationals / polynomials / table cells; closest-fraction, nearest-multiple, element-wise
    definitions).
M2  spec -> code: every finished state of the TLC run (case, res) is replayed on the real function through
    several call routes; a result that differs from the exported value is handed to TLC (TextTrace.tla, operator
    Judge) which decides modulo what the documentation leaves open.
M3  code -> spec: seeded random larger inputs, recorded from the real code and judged by TLC.
"""
import math
import os
from fractions import Fraction

import common
import tlaval
import tlc
import tracecheck

Q16 = 1 << 16
PI_SYM = "$\\pi$"
KINDS = ("rint", "aeq", "shz", "str2midi", "midi2str", "midi2freq", "freq2midi", "str2freq", "freq2str",
         "octaves", "frac", "auto", "autolist", "mulfmt", "pairsum", "poly", "zf", "table", "doc", "fmtdoc")
MULTISTEP = ("rint", "midi2str", "octaves", "frac", "auto", "poly", "zf", "table", "doc", "fmtdoc")


# ------------------------------------------------------------------------------------------------------
# spec values <-> Python
def S(chars):
    return "".join(chars)


def C(s):
    return list(s)


def Qr(p):
    return Fraction(p[0], p[1])


def P(fr):
    fr = Fraction(fr)
    return [fr.numerator, fr.denominator]


def norm(v):
    """tuples -> lists, FrozenDict -> dict (JSON-able, comparable)."""
    if isinstance(v, dict):
        return {k: norm(x) for k, x in v.items()}
    if isinstance(v, (tuple, list)):
        return [norm(x) for x in v]
    return v


def exact_float(fr):
    f = float(fr)
    if Fraction(f) != fr:
        raise tlc.MachineryError("%s is not exactly a float" % fr)
    return f


def num_py(n, route=0):
    """spec number [t, v] -> Python int / float / Fraction."""
    q = Qr(n["v"])
    if n["t"] == "int":
        return int(q)
    if n["t"] == "float":
        return exact_float(q)
    return q


def fits32(*vals):
    return all(abs(int(v)) < (1 << 30) for v in vals)


# ------------------------------------------------------------------------------------------------------
# observation of one case through one route; returns the observation in the encoding of the spec's `res`
class Skip(Exception):
    pass


def pitch_enc(v):
    if isinstance(v, complex):
        return {"t": "error"}
    if v != v:
        return {"t": "nan"}
    if v == float("inf"):
        return {"t": "inf"}
    if v == float("-inf"):
        return {"t": "ninf"}
    return None


def freq_value(al, f, route=0):
    t = f["t"]
    if t == "a4":
        tw = Qr(f["tw"])
        if route == 1 and tw.denominator == 1:
            return al.midi2freq(69 + int(tw))
        return 440. * 2. ** (float(tw) / 12.)
    return {"zero": 0. if route else 0, "neg": -1., "inf": float("inf"), "ninf": float("-inf"),
            "nan": float("nan")}[t]


def freq_enc(f):
    if f != f:
        return {"t": "nan"}
    if f == float("inf"):
        return {"t": "inf"}
    if f == float("-inf"):
        return {"t": "ninf"}
    if f == 0:
        return {"t": "zero"}
    if f < 0:
        return {"t": "neg"}
    return {"t": "a4", "q": int(round(12 * math.log(f / 440., 2) * Q16))}


def midi_value(m, route=0):
    if m["t"] == "num":
        q = Qr(m["v"])
        if q.denominator == 1:
            return int(q) if route % 2 == 0 else float(q)
        return float(q)
    return {"inf": float("inf"), "ninf": float("-inf"), "nan": float("nan")}[m["t"]]


def aeq_value(x, unit, route):
    if x["t"] in ("list", "tuple"):
        items = [aeq_value(i, unit, route) for i in x["items"]]
        if route == 1:
            return (i for i in items)                 # generators are iterables too
        return items if x["t"] == "list" else tuple(items)
    q = Fraction(x["v"], 1 << unit)
    if x["t"] == "int":
        if q.denominator != 1:
            raise tlc.MachineryError("int leaf %s is not an integer" % q)
        return int(q)
    return exact_float(q)


class _Plain(object):
    pass


_Plain.__doc__ = None


def doc_object(case, route):
    text = "\n".join(S(l) for l in case["lines"])
    kind = case["kind"]
    if kind == "func":
        if route == 0:
            def f():
                pass
            f.__doc__ = text
            return f
        if route == 1:
            return type("K", (object,), {"__doc__": text})
        return property(lambda self: None, doc=text)
    if kind == "plain":
        cls = type("NoDoc", (object,), {"__str__": lambda self: text})
        cls.__doc__ = None
        return cls()
    # any other input: an object whose class happens to have a docstring
    if route == 1 and text.lstrip("-").isdigit() and str(int(text)) == text:
        return int(text)
    return type("WithDoc", (object,), {"__doc__": "Documentation of the class, not of the value.",
                                       "__str__": lambda self: text})()


def fmt_template(toks):
    out = []
    for t in toks:
        if t["t"] == "lit":
            s = S(t["s"])
            if "{" in s or "}" in s:
                raise tlc.MachineryError("brace in literal")
            out.append(s)
        elif t["t"] == "pos":
            out.append("{%d}" % t["i"])
        else:
            out.append("{%s}" % t["n"])
    return "".join(out)


def routes_of(case):
    k = case["k"]
    if k == "rint":
        return (0, 1, 2)
    if k == "aeq":
        return (0, 1) if case["ign"] else (0,)
    if k in ("shz", "midi2str", "midi2freq", "freq2midi", "freq2str", "octaves", "poly", "table", "str2midi"):
        return (0, 1)
    if k == "frac":
        return (0, 1, 2)
    if k == "auto":
        return (0, 1)
    if k == "doc":
        return (0, 1, 2) if case["kind"] == "func" else (0, 1)
    return (0,)


def observe(al, case, route=0):
    k = case["k"]
    if k == "rint":
        x = Qr(case["x"])
        step = case["step"]
        if route == 0:
            xv = exact_float(x)
        elif route == 1:
            xv = x
        else:
            if x.denominator != 1:
                raise Skip()
            xv = int(x)
        r = al.rint(xv) if (step == 1 and route != 1) else al.rint(xv, step)
        if type(r) is not int:
            return {"badtype": type(r).__name__}
        return r
    if k == "aeq":
        unit = case["unit"]
        a = aeq_value(case["a"], unit, route)
        b = aeq_value(case["b"], unit, route)
        pad = aeq_value(case["pad"], unit, 0)
        if case["strat"] == "bits":
            if case["bits"] == 32 and case["tol"] == 1 and case["ign"] and pad == 0 and route == 0:
                return bool(al.almost_eq(a, b))                                   # all defaults
            return bool(al.almost_eq.bits(a, b, bits=case["bits"], tol=case["tol"], ignore_type=case["ign"],
                                          pad=pad))
        md = exact_float(Fraction(case["md"], 1 << unit))
        return bool(al.almost_eq.diff(a, b, max_diff=md, ignore_type=case["ign"], pad=pad))
    if k == "shz":
        rate = Qr(case["rate"])
        rv = int(rate) if (rate.denominator == 1 and route == 0) else exact_float(rate)
        s, hz = al.sHz(rv)
        if type(s) is not float:
            return {"badtype": type(s).__name__}
        return {"s": P(Fraction(s)), "q": int(round(hz * float(rate) / math.pi * Q16))}
    if k == "str2midi":
        s = S(case["s"])
        try:
            r = al.str2midi(s) if route == 0 else al.str2midi([s])[0]
        except Exception:
            return {"t": "error"}
        sp = pitch_enc(r)
        if sp:
            return sp
        if type(r) is not int:
            return {"t": "error"}
        return {"t": "num", "v": [r, 1]}
    if k == "midi2str":
        m = midi_value(case["m"], route)
        r = al.midi2str(m) if (case["sharp"] and route == 0) else al.midi2str(m, sharp=case["sharp"])
        return C(r)
    if k == "midi2freq":
        return freq_enc(al.midi2freq(midi_value(case["m"], route)))
    if k == "freq2midi":
        r = al.freq2midi(freq_value(al, case["f"], route))
        return pitch_enc(r) or {"t": "num", "q": int(round(r * Q16))}
    if k == "str2freq":
        try:
            return freq_enc(al.str2freq(S(case["s"])))
        except Exception:
            return {"t": "error"}
    if k == "freq2str":
        return C(al.freq2str(freq_value(al, case["f"], route)))
    if k == "octaves":
        f, lo, hi = (Qr(case[n]) for n in ("f", "lo", "hi"))
        cv = (lambda q: int(q) if (q.denominator == 1 and route == 1) else exact_float(q))
        try:
            if lo == 20 and hi == 20000 and route == 0:
                r = al.octaves(cv(f))
            else:
                r = al.octaves(cv(f), fmin=cv(lo), fmax=cv(hi))
        except ValueError:
            return {"err": "ValueError", "out": []}
        return {"err": "none", "out": [P(Fraction(x)) for x in r]}
    if k == "frac":
        x = Qr(case["x"])
        sym, after, M = S(case["sym"]), case["after"], case["M"]
        kw = {} if (M == 1000000 and route == 0) else {"max_denominator": M}
        if case["pi"]:
            if sym != PI_SYM or route == 2:
                raise Skip()
            value = al.pi * x.numerator / x.denominator
            if route == 1:
                return C(al.float_str.frac(value, symbol_str=sym, symbol_value=al.pi, after=after, **kw))
            return C(al.float_str.pi(value, after=after, **kw))
        sv = (1, 2, 0.5)[route]
        value = exact_float(x * Fraction(sv))
        if sym == "" and not after and sv == 1:
            fn = (al.float_str.frac, al.float_str.fraction, al.float_str.ratio, al.float_str.rational)[M % 4]
            return C(fn(value, **kw))
        return C(al.float_str.frac(value, symbol_str=sym, symbol_value=sv, after=after, **kw))
    if k in ("auto", "autolist"):
        def val(v):
            r = Qr(v["r"])
            if v["pi"]:
                return al.pi * r.numerator / r.denominator
            return int(r) if (r.denominator == 1 and route == 1) else exact_float(r)
        order, size, after, M = S(case["order"]), list(case["size"]), case["after"], case["M"]
        dflt = (order == "pprpr" and size == [4, 5, 3, 6, 4] and M == 1000000 and not after)
        fn = al.float_str if route == 0 else al.float_str.auto
        if k == "auto":
            try:
                r = fn(val(case["val"])) if dflt else fn(val(case["val"]), order, size, after=after,
                                                         max_denominator=M)
            except ValueError:
                return {"err": "ValueError", "und": False, "out": []}
            except KeyError:
                return {"err": "KeyError", "und": False, "out": []}
            return {"err": "none", "und": False, "out": C(r)}
        vals = [val(v) for v in case["vals"]]
        try:
            r = fn(vals, order, size, after=after, max_denominator=M)
        except Exception as ex:
            return []
        if not isinstance(r, (list, tuple)) or not all(isinstance(x, str) for x in r):
            return []
        return [{"err": "none", "und": False, "out": C(x)} for x in r]
    if k == "mulfmt":
        return C(al.multiplication_formatter(case["p"], num_py(case["v"]), S(case["sym"])))
    if k == "pairsum":
        return C(al.pair_strings_sum_formatter(S(case["a"]), S(case["b"])))
    if k == "poly":
        if S(case["sym"]) != "x" or case["sign"] != 1:
            raise Skip()
        d = [(t["p"], num_py(t["v"])) for t in case["terms"]]
        if route == 0:
            p = al.Poly(dict(d))
            return C(str(p))
        from collections import OrderedDict
        return C(repr(al.Poly(OrderedDict(reversed(d)))))
    if k == "zf":
        num = dict((t["p"], num_py(t["v"])) for t in case["num"])
        den = dict((t["p"], num_py(t["v"])) for t in case["den"])
        return C(str(al.ZFilter(num, den)))
    if k == "table":
        def cell_text(s):
            if route == 1:
                if s.isdigit() and str(int(s)) == s:
                    return int(s)
                if s == "0.5":
                    return 0.5
            return s

        def cell(c):
            return [cell_text(S(x)) for x in c["ss"]] if c["m"] else cell_text(S(c["s"]))
        data = [[cell(c) for c in row] for row in case["data"]]
        if route == 1:
            data = [tuple(r) for r in data]
        try:
            if case["schema"]["none"]:
                r = al.rst_table(data)
            else:
                sch = [S(x) for x in case["schema"]["cols"]]
                r = al.rst_table(data, tuple(sch) if route == 1 else sch)
        except Exception as ex:
            return {"raised": type(ex).__name__}
        return [C(x) for x in r]
    if k == "doc":
        obj = doc_object(case, route)
        ind, w = S(case["indent"]), case["width"]
        if ind == "" and w == 80 and route == 0:
            r = al.small_doc(obj)
        else:
            r = al.small_doc(obj, indent=ind, max_width=w)
        return [C(x) for x in r]
    if k == "fmtdoc":
        tpl = fmt_template(case["tpl"])
        args = [S(a) for a in case["args"]]
        kw = dict((x["n"], S(x["s"])) for x in case["kw"])

        def f():
            pass
        f.__doc__ = fmt_template(case["doc"]["toks"]) if case["doc"]["has"] else None
        try:
            g = al.format_docstring(tpl, *args, **kw)(f)
        except KeyError:
            return {"err": "KeyError", "out": []}
        except IndexError:
            return {"err": "IndexError", "out": []}
        if g is not f:
            return {"err": "not-the-same-function", "out": []}
        return {"err": "none", "out": C(f.__doc__)}
    raise tlc.MachineryError("unknown kind %r" % k)


def judgeable(obs, case):
    """Observations TLC's Judge can evaluate (well-typed); others are violations on their own."""
    if isinstance(obs, dict) and ("badtype" in obs or "raised" in obs):
        return False
    return True


def vkey(case, clause):
    k = case["k"]
    if k == "table" and case["schema"]["none"]:
        return "X01:rst_table-schema-none"
    if k == "doc" and case["kind"] == "instance":
        return "X01:small_doc-other-input"
    if k == "autolist":
        return "X01:float_str.auto-iterable"
    return "X01:%s" % clause


def brief(case):
    def b(v):
        if isinstance(v, list) and v and all(isinstance(x, str) and len(x) == 1 for x in v):
            return "".join(v)
        if isinstance(v, list):
            return [b(x) for x in v]
        if isinstance(v, dict):
            return {k: b(x) for k, x in v.items()}
        return v
    return b(norm(case))


def trivial(case):
    k = case["k"]
    if k == "rint":
        return case["x"][1] == 1 and case["step"] == 1
    if k == "aeq":
        return case["a"] == case["b"]
    if k == "frac":
        return case["x"][0] == 0
    return False


# ------------------------------------------------------------------------------------------------------
def m2(ctx, al, module, cfg):
    d = tlc.scratch_dir("x01")
    dump = os.path.join(d, "states")
    # -coverage makes TLC exhaust its heap on the recursive readers; vacuity is established from the dump
    r = tlc.require_ok(tlc.run(module, cfg, dump=dump, coverage=False), module)
    ctx.add_tlc(r, "Text (X01 grid): operational helpers refine their documented behaviour")
    done = dict((k, 0) for k in KINDS)
    mid = dict((k, 0) for k in KINDS)
    disputed, meta = [], []
    nstates = 0
    und = 0
    for st in tlaval.read_dump(dump + ".dump"):
        nstates += 1
        if st["pc"] == "pick":
            continue
        case = norm(st["case"])
        k = case["k"]
        if st["pc"] != "done":
            if norm(st["st"]).get("ph") not in ("divmod", "call", "validate") or k in ("octaves",):
                mid[k] += 1
            continue
        done[k] += 1
        want = norm(st["res"])
        if k == "auto" and want["und"]:
            und += 1
            continue
        for route in routes_of(case):
            try:
                obs = observe(al, case, route)
            except Skip:
                continue
            except tlc.MachineryError:
                raise
            except Exception as ex:
                obs = {"raised": "%s: %s" % (type(ex).__name__, str(ex)[:80])}
            ctx.count(1, nontrivial_key=None if trivial(case) else (k, done[k]))
            if nstates % 977 == 0 and route == 0:
                ctx.sample({"case": brief(case), "observed": brief(obs)})
            if obs == want:
                continue
            if not judgeable(obs, case):
                ctx.violation(vkey(case, k + "-raises"), {"case": brief(case), "route": route,
                                                         "expected": brief(want), "observed": brief(obs)})
                continue
            disputed.append({"case": case, "out": obs, "strict": False})
            meta.append({"case": brief(case), "route": route, "expected": brief(want), "observed": brief(obs)})
    if nstates != r.distinct:
        raise tlc.MachineryError("dump has %d states, TLC reported %d" % (nstates, r.distinct))
    for k in KINDS:
        if done[k] == 0:
            raise tlc.MachineryError("no finished state of kind %s (vacuous)" % k)
        if k in MULTISTEP and mid[k] == 0:
            raise tlc.MachineryError("no intermediate step of kind %s (vacuous)" % k)
    ctx.traces += sum(done.values())
    ctx.extra["m1_finished_cases"] = dict(done)
    ctx.log("M2: %d finished cases replayed (%d auto cases undecided by the model skipped), %d disputed" %
            (sum(done.values()), und, len(disputed)))
    if disputed:
        bad = tracecheck.run_records(ctx, "TextTrace", {"Groups": "{}", "CasesOf": "<- NoCases"}, disputed, invariants=("JudgeRec",),
                                     what="X01 disputed replays judged by the specification", chunk=400)
        for i, info in sorted(bad.items()):
            if info and info[0] in ("NOTE", "UNDECIDED"):
                continue
            ctx.violation(vkey(disputed[i - 1]["case"], info[0]), dict(meta[i - 1], clause=info[0]))
        ok = [m for j, m in enumerate(meta) if (j + 1) not in bad or bad[j + 1][0] in ("NOTE", "UNDECIDED")]
        ctx.log("M2: %d disputed replays allowed by the documented behaviour (diagnostics), e.g. %s" %
                (len(ok), ok[:2]))


# ------------------------------------------------------------------------------------------------------
# M3 generators
def rat_dyadic(rng, nmax, kmax):
    k = rng.randint(0, kmax)
    return Fraction(rng.randint(-nmax, nmax), 1 << k)


def g_rint(rng):
    return {"k": "rint", "x": P(rat_dyadic(rng, 1 << 20, 6)), "step": rng.choice([1, 1, 2, 3, 5, 10, 12, 50, 1000])}


def g_aeq(rng):
    unit = 4

    def leaf():
        if rng.random() < 0.3:
            return {"t": "int", "v": rng.randint(-40, 40) * 16}
        return {"t": "float", "v": rng.randint(-800, 800)}

    def cont(depth):
        n = rng.randint(0, 4)
        items = [cont(depth - 1) if (depth > 0 and rng.random() < 0.4) else leaf() for _ in range(n)]
        return {"t": rng.choice(["list", "list", "tuple"]), "items": items}

    def mutate(x):
        if x["t"] in ("list", "tuple"):
            items = [mutate(i) for i in x["items"]]
            r = rng.random()
            if r < 0.15 and items:
                items = items[:-1]
            elif r < 0.3:
                items = items + [leaf()]
            t = x["t"] if rng.random() < 0.8 else ("tuple" if x["t"] == "list" else "list")
            return {"t": t, "items": items}
        r = rng.random()
        if r < 0.5:
            return dict(x)
        if x["t"] == "int":
            return {"t": "float", "v": x["v"] + rng.choice([0, 0, 1, -1, 16])}
        return {"t": "float", "v": x["v"] + rng.choice([0, 1, -1, 2, 3, -7, 40])}
    depth = rng.choice([0, 1, 1, 2])
    a = leaf() if depth == 0 else cont(depth - 1)
    b = mutate(a)
    if rng.random() < 0.5:
        strat, bits = "bits", rng.choice([32, 64, 80, 128])
        sig = {32: 23, 64: 52, 80: 63, 128: 112}[bits]
        tol, md = sig + 1 + rng.randint(-9, 1), 0
    else:
        strat, bits, tol, md = "diff", 32, 1, rng.choice([0, 1, 2, 3, 16, 50])
    return {"k": "aeq", "strat": strat, "a": a, "b": b, "bits": bits, "tol": tol, "md": md,
            "ign": rng.random() < 0.6, "pad": {"t": "float", "v": rng.choice([0, 0, 16, -3])}, "unit": unit}


def g_shz(rng):
    return {"k": "shz", "rate": P(Fraction(rng.randint(1, 400000), rng.choice([1, 1, 1, 2, 4])))}


def g_name(rng):
    s = rng.choice("abcdefgABCDEFG")
    s += "".join(rng.choice("b#xB#X"[:6]) for _ in range(rng.choice([0, 0, 1, 1, 2, 3, 4])))
    s += str(rng.randint(-6, 13))
    if rng.random() < 0.2:
        s = " " * rng.randint(0, 2) + s + " " * rng.randint(0, 2)
    if rng.random() < 0.03:
        s = rng.choice(["?", "h3", "c4c", "", "c", "c+-3"])
    return s


def g_str2midi(rng):
    return {"k": "str2midi", "s": C(g_name(rng))}


def g_pitch(rng):
    r = rng.random()
    if r < 0.03:
        return {"t": rng.choice(["inf", "ninf", "nan"])}
    if r < 0.4:
        return {"t": "num", "v": [rng.randint(-300, 400), 1]}
    if r < 0.7:
        return {"t": "num", "v": P(Fraction(rng.randint(-300 * 64, 400 * 64), 64))}
    j = rng.randint(-100 * 10000, 200 * 10000)
    while j % 10000 in (1, 9999, 0):
        j += 7
    return {"t": "num", "v": P(Fraction(j, 10000))}


def g_midi2str(rng):
    return {"k": "midi2str", "m": g_pitch(rng), "sharp": rng.random() < 0.5}


def g_midi2freq(rng):
    m = g_pitch(rng)
    if m["t"] == "num" and abs(Qr(m["v"])) > 150:
        m = {"t": "num", "v": [rng.randint(-40, 150), 1]}
    return {"k": "midi2freq", "m": m}


def g_freq(rng, for_str=False):
    r = rng.random()
    if r < 0.06:
        return {"t": rng.choice(["zero", "neg", "inf"] if for_str else ["zero", "neg", "inf", "ninf", "nan"])}
    if r < 0.6 or for_str:
        if for_str and r > 0.6:
            # off-grid pitches: keep clear of half-semitone ties and of the 1e-4 suppression threshold
            return {"t": "a4", "tw": P(Fraction(rng.randint(-60, 60) * 20 + rng.choice([1, 2, 3, 5, 7, -4, -9]), 20))}
        return {"t": "a4", "tw": [rng.randint(-80, 70), 1]}
    return {"t": "a4", "tw": P(Fraction(rng.randint(-80 * 8, 70 * 8), 8))}


def g_freq2midi(rng):
    return {"k": "freq2midi", "f": g_freq(rng)}


def g_str2freq(rng):
    return {"k": "str2freq", "s": C(g_name(rng))}


def g_freq2str(rng):
    return {"k": "freq2str", "f": g_freq(rng, True)}


def g_octaves(rng):
    f = Fraction(rng.randint(1, 4000), rng.choice([1, 1, 2, 8]))
    lo = Fraction(rng.randint(1, 400), rng.choice([1, 2, 4]))
    hi = lo * Fraction(rng.randint(2, 600), rng.choice([1, 2, 4, 8]))
    if rng.random() < 0.3:                       # make an end point an exact octave of f
        e = rng.randint(-6, 6)
        if rng.random() < 0.5:
            lo = f * Fraction(2) ** e
        else:
            hi = f * Fraction(2) ** e
    if rng.random() < 0.05:
        lo, hi = hi, lo
    if rng.random() < 0.05:
        f = -f if rng.random() < 0.5 else Fraction(0)
    if hi > 0 and lo > 0 and f > 0 and not (Fraction(1, 1 << 12) <= f / lo <= (1 << 12) and
                                            Fraction(1, 1 << 12) <= hi / f <= (1 << 12)):
        return None
    return {"k": "octaves", "f": P(f), "lo": P(lo), "hi": P(hi)}


def g_frac(rng):
    if rng.random() < 0.35:
        den = rng.randint(1, 60)
        x = Fraction(rng.randint(-3 * den, 5 * den), den)
        M = rng.choice([rng.randint(1, 80), 1000000, 1000])
        return {"k": "frac", "x": P(x), "sym": C(PI_SYM), "after": rng.random() < 0.5, "M": M, "pi": True}
    x = Fraction(rng.randint(-(1 << 12), 1 << 12), 1 << rng.randint(0, 8))
    M = rng.choice([rng.randint(1, 40), rng.randint(1, 400), 1000000])
    sym = rng.choice(["", "", "s", " Hz", "steps", "k", " rad"])
    return {"k": "frac", "x": P(x), "sym": C(sym), "after": rng.random() < 0.4, "M": M, "pi": False}


def g_gvalue(rng):
    """a dyadic float whose "%g" the model can print in 32-bit integers (denominator <= 1024)"""
    return Fraction(rng.randint(-(1 << 17), 1 << 17), 1 << rng.randint(0, 10))


def g_auto(rng):
    if rng.random() < 0.4:
        den = rng.choice([1, 2, 3, 4, 6, 8, 12, 16, 7, 9])
        v = {"pi": True, "r": P(Fraction(rng.randint(-2 * den, 3 * den), den))}
        M = rng.choice([6, 20, 30, 1000000, 1000000])
    else:
        v = {"pi": False, "r": P(g_gvalue(rng))}
        M = rng.choice([6, 12, 20, 30])
    if rng.random() < 0.5:
        order, size = "pprpr", [4, 5, 3, 6, 4]
    else:
        n = rng.randint(0, 5)
        order = "".join(rng.choice("pprrf") for _ in range(n))
        size = [rng.randint(1, 9) for _ in range(n)]
        if rng.random() < 0.05:
            size = size[:-1] if size else [3]
        if rng.random() < 0.04 and order:
            order = order[:-1] + "q"
    return {"k": "auto", "val": v, "order": C(order), "size": size, "after": rng.random() < 0.3, "M": M}


def g_autolist(rng):
    c = g_auto(rng)
    vals = [g_auto(rng)["val"] for _ in range(rng.randint(0, 4))]
    vals = [v for v in vals if not v["pi"] or c["M"] >= 16]
    order, size = S(c["order"]), c["size"]
    if len(order) != len(size) or "q" in order:
        order, size = "rf", [3, 4]
    return {"k": "autolist", "vals": vals, "order": C(order), "size": size, "after": False, "M": c["M"]}


def g_coef(rng, nz=False):
    r = rng.random()
    if r < 0.4:
        v = rng.choice([1, -1, 1, -1, 2, 3, -7, 12, 100, -999, 0])
        t = "int"
        q = Fraction(v)
    elif r < 0.8:
        q = rng.choice([Fraction(1), Fraction(-1), Fraction(5, 2), Fraction(-1, 8), Fraction(3), Fraction(0),
                        Fraction(rng.randint(-4000, 4000), rng.choice([2, 4, 8, 16, 64, 1024]))])
        t = "float"
    else:
        q = Fraction(rng.randint(-30, 30), rng.randint(1, 12))
        t = "frac"
    if nz and q == 0:
        q = Fraction(2)
    return {"t": t, "v": P(q)}


def g_terms(rng, lo, hi, nmax, nz=False):
    n = rng.randint(0, nmax)
    pw = rng.sample(range(lo, hi + 1), min(n, hi - lo + 1))
    return [{"p": p, "v": g_coef(rng, nz)} for p in pw]


def g_mulfmt(rng):
    return {"k": "mulfmt", "p": rng.choice([0, 1, -1, 2, 7, -3, 12]), "v": g_coef(rng), "sym": C(rng.choice(["x", "z", "w"]))}


def g_poly(rng):
    return {"k": "poly", "terms": g_terms(rng, -5, 12, 8), "sym": C("x"), "sign": 1}


def g_zf(rng):
    den = g_terms(rng, 1, 9, rng.choice([0, 1, 2, 4, 9]), nz=True)
    den = [{"p": 0, "v": rng.choice([{"t": "int", "v": [1, 1]}, {"t": "float", "v": [1, 1]}, {"t": "int", "v": [2, 1]},
                                     {"t": "float", "v": [-1, 2]}])}] + den
    if rng.random() < 0.1:
        den = [t for t in den if t["p"] != 0] or den
    return {"k": "zf", "num": g_terms(rng, 0, 16, rng.choice([0, 1, 3, 6, 12, 17])), "den": den}


def g_text(rng, n, alphabet="abc d1.Z"):
    return "".join(rng.choice(alphabet) for _ in range(rng.randint(0, n)))


def g_table(rng):
    nc = rng.randint(1, 4)

    def cell():
        if rng.random() < 0.2:
            return {"m": True, "ss": [C(g_text(rng, 6)) for _ in range(rng.randint(0, 3))]}
        return {"m": False, "s": C(g_text(rng, 8))}
    data = [[cell() for _ in range(nc)] for _ in range(rng.randint(1, 5))]
    if rng.random() < 0.15:
        return {"k": "table", "data": data, "schema": {"none": True, "cols": []}}
    cols = [C(g_text(rng, 9, "abcXY_ k").strip()) for _ in range(nc)]
    return {"k": "table", "data": data, "schema": {"none": False, "cols": cols}}


def g_doc(rng):
    def line():
        words = [g_text(rng, 11, "abcdefgh.,")[:rng.randint(1, 12)] or "w" for _ in range(rng.randint(1, 6))]
        return " " * rng.randint(0, 3) + (" " * rng.randint(1, 2)).join(words) + " " * rng.randint(0, 2)
    lines = [line() for _ in range(rng.randint(1, 4))]
    r = rng.random()
    if r < 0.3:
        lines = ["", "  "] [:rng.randint(0, 2)] + lines
    if rng.random() < 0.5:
        lines = lines + ["  " if rng.random() < 0.5 else ""] + [line()]
    kind = rng.choice(["func", "func", "func", "plain", "instance"])
    if kind != "func":
        lines = [l for l in lines if l.strip()][:2] or ["v"]
    ind = rng.choice(["", "", "  ", "> ", "\n  "])
    return {"k": "doc", "kind": kind, "lines": [C(l) for l in lines], "indent": C(ind),
            "width": len(ind) + rng.choice([3, 5, 8, 13, 21, 40, 78])}


def g_fmtdoc(rng):
    def toks(n, allow_doc):
        out = []
        for _ in range(rng.randint(0, n)):
            r = rng.random()
            if r < 0.45:
                out.append({"t": "lit", "s": C(g_text(rng, 6, "abc \n:.") or "-")})
            elif r < 0.7:
                out.append({"t": "pos", "i": rng.randint(0, 3)})
            elif r < 0.9 or not allow_doc:
                out.append({"t": "kw", "n": rng.choice(["name", "k", "descr"])})
            else:
                out.append({"t": "kw", "n": "__doc__"})
        return out
    args = [C(g_text(rng, 5, "xyz12") or "v") for _ in range(rng.randint(0, 4))]
    kw = [{"n": n, "s": C(g_text(rng, 5, "NMK ") or "V")} for n in ("name", "k", "descr") if rng.random() < 0.7]
    doc = {"has": True, "toks": toks(4, False)} if rng.random() < 0.6 else {"has": False, "toks": []}
    if doc["has"] and not fmt_template(doc["toks"]):
        doc = {"has": False, "toks": []}            # an empty docstring counts as no docstring
    return {"k": "fmtdoc", "tpl": toks(7, True), "args": args, "kw": kw, "doc": doc}


GENS = [(g_rint, 3), (g_aeq, 4), (g_shz, 1), (g_str2midi, 2), (g_midi2str, 4), (g_midi2freq, 1), (g_freq2midi, 1),
        (g_str2freq, 1), (g_freq2str, 2), (g_octaves, 3), (g_frac, 4), (g_auto, 4), (g_autolist, 1), (g_mulfmt, 1),
        (g_poly, 3), (g_zf, 3), (g_table, 3), (g_doc, 4), (g_fmtdoc, 3)]


def prescreen(case):
    """Magnitude screens from the inputs alone (TLC integers are 32-bit)."""
    k = case["k"]
    if k == "frac":
        x = Qr(case["x"])
        M = case["M"]
        if x.denominator > M:
            return fits32(x.denominator * x.denominator * M * 4, abs(x.numerator) * M * 4)
    if k == "auto" or k == "autolist":
        if case["M"] > 40 and any(not v["pi"] for v in ([case["val"]] if k == "auto" else case["vals"])):
            return False
    if k == "midi2str" and case["m"]["t"] == "num":
        return fits32(case["m"]["v"][0] * 2000)
    return True


def m3(ctx, al, count):
    rng = ctx.rng
    weights = [w for _, w in GENS]
    recs, meta = [], []
    tries = 0
    while len(recs) < count and tries < count * 20:
        tries += 1
        gen = rng.choices([g for g, _ in GENS], weights)[0]
        case = gen(rng)
        if case is None or not prescreen(case):
            continue
        rts = routes_of(case)
        route = rng.choice(rts)
        try:
            obs = observe(al, case, route)
        except Skip:
            continue
        except tlc.MachineryError:
            raise
        except Exception as ex:
            obs = {"raised": "%s: %s" % (type(ex).__name__, str(ex)[:80])}
        ctx.count(1, nontrivial_key=None if trivial(case) else ("m3", len(recs)))
        if not judgeable(obs, case):
            ctx.violation(vkey(case, case["k"] + "-raises"), {"case": brief(case), "route": route, "observed": brief(obs)})
            continue
        recs.append({"case": case, "out": obs, "strict": True})
        meta.append({"case": brief(case), "route": route, "observed": brief(obs)})
    bad = tracecheck.run_records(ctx, "TextTrace", {"Groups": "{}", "CasesOf": "<- NoCases"}, recs, invariants=("JudgeRec",),
                                 what="X01 recorded calls judged by the specification", chunk=400)
    notes = [i for i, info in bad.items() if info and info[0] == "NOTE"]
    undec = [i for i, info in bad.items() if info and info[0] == "UNDECIDED"]
    rej = {i: info for i, info in bad.items() if not (info and info[0] in ("NOTE", "UNDECIDED"))}
    ctx.traces += len(recs) - len(rej) - len(undec)
    ctx.log("M3: %d recorded calls judged by TLC, %d rejected, %d undecided by the model (pi enclosure), %d allowed "
            "but different from the operational layer (diagnostics)" % (len(recs), len(rej), len(undec), len(notes)))
    ctx.extra["m3_notes_by_kind"] = {}
    for i in notes:
        kk = recs[i - 1]["case"]["k"]
        ctx.extra["m3_notes_by_kind"][kk] = ctx.extra["m3_notes_by_kind"].get(kk, 0) + 1
    ctx.log("  notes by kind:", ctx.extra["m3_notes_by_kind"])
    shown = set()
    for i in [j for j in notes if not (recs[j - 1]["case"]["k"] in shown or shown.add(recs[j - 1]["case"]["k"]))][:4]:
        ctx.log("  note:", str(meta[i - 1])[:300])
    if meta:
        ctx.sample({"recorded": meta[0]})
    for i, info in sorted(rej.items()):
        ctx.violation(vkey(recs[i - 1]["case"], info[0]), dict(meta[i - 1], clause=info[0]))


def check(ctx):
    al = common.import_audiolazy()
    al.float_str.pi_symbol = PI_SYM            # the doctests of float_str.pi change it
    ctx.rule = ("M2: every finished case of the TLC grid replayed through 1-3 call routes (types int / float / "
                "Fraction, aliases, defaults); non-trivial = not (integer x with step 1 | identical operands | "
                "value 0); M3: seeded random larger inputs judged by TLC")
    ctx.assumptions = [
        "numbers are exact floats (dyadic rationals) or small rationals; multiples of pi are given as r*pi",
        "float_str on a multiple of pi (or the pi form of a plain number): the model encloses pi in "
        "(333/106, 355/113); candidate texts that differ at the two ends are 'undecided' and skipped",
        "exact ties of limit_denominator and of octave end points are left open (documentation silent)",
        "almost_eq: operands are numbers nested at most two levels; padding of INNER levels with a non-zero pad "
        "is left open",
        "'{:g}' is modelled for floats with |x| >= 1e-3 and denominators <= 1024 (32-bit TLC integers)",
        "str2midi outside the note-name grammar (letter, accidentals b # x, integer octave) is not judged",
    ]
    if ctx.thorough:
        m2(ctx, al, "TextX01T", "TextX01T.cfg")
        m3(ctx, al, 15000)
    else:
        m2(ctx, al, "TextX01Q", "TextX01Q.cfg")
        m3(ctx, al, 1500)
    ctx.exhaustive = True
