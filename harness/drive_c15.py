"""C15 - MultiKeyDict / StrategyDict stay coherent under any update history.

M1  TLC: full reachable state graph of spec/core/MultiKeyDict.tla and StrategyDict.tla (no history
    bound), refinement of the three-map machine to the key->value-with-recency definition.
M2  spec -> code: transition cover of both graphs replayed on the real objects; after the last step of
    every path the projection through the public API is compared with the definition layer's state.
M3  code -> spec: long random histories over larger universes recorded and validated by TLC
    (spec/trace/MultiKeyDictTrace.tla).
"""
import os

import common
import graphcover
import tlaval
import tlc
import tracecheck

KEYS = ["a", "b", "c", "d"]
VALS = ["v1", "v2", "v3"]


class Val(object):
    """A value of the dictionary: hashable, EQUAL BY NAME - every use hands the library a fresh object, so the code
    sees equal-but-not-identical values (bound methods, 1000 vs 1000.0 ...) exactly where the model sees one value."""
    def __init__(self, name):
        self.name = name
        self.__name__ = name

    def __eq__(self, other):
        return isinstance(other, Val) and other.name == self.name

    def __ne__(self, other):
        return not self.__eq__(other)

    def __hash__(self):
        return hash(("Val", self.name))

    def __repr__(self):
        return self.name


class Strat(Val):
    """A strategy value: also callable."""
    def __call__(self, *a, **k):
        return ("called", self.name, a)


class Fresh(object):
    """obj[v] -> a NEW object equal to every other one made for v."""
    def __init__(self, cls, names):
        self.cls = cls
        self.names = list(names)

    def __getitem__(self, v):
        return self.cls(v)

    def values(self):
        return [self.cls(v) for v in self.names]


def tag_of(o):
    return o.name if isinstance(o, Val) else repr(o)


def project(d, keys, vals, tag, sd):
    """Public-API projection of the dictionary (tag: value object -> spec name)."""
    kv = {}
    for k in keys:
        try:
            kv[k] = tag(d[k])
        except KeyError:
            pass
    o = {}
    for v in vals:
        t = d.value2keys(v)
        if t != ():
            o[tag(v)] = tuple(t)
    pr = {"kv": kv, "ord": o,
          "k2k": {k: tuple(d.key2keys(k)) for k in kv},
          "len": len(d), "iter": sorted(tag(v) for v in d),
          "keys": sorted(tuple(t) for t in d.keys())}
    if sd:
        pr["attrs"] = {k: tag(getattr(d, k)) for k in keys if hasattr(d, k)}   # (a deleted name must be gone)
        dv = vars(d).get("default")
        pr["dflt"] = "none" if dv is None else tag(dv)
        r = d(7)
        pr["call"] = "NotImplemented" if r is NotImplemented else (r[1] if r[2] == (7,) else "bad-args")
        # calling the dict calls the DEFAULT with exactly the arguments given - also when the first one is the
        # name of a strategy
        for k in keys:
            r2 = d(k, 7)
            c2 = "NotImplemented" if r2 is NotImplemented else (r2[1] if r2[2] == (k, 7) else "bad-args")
            if c2 != pr["call"]:
                pr["call"] = "name-argument:" + str(c2)
    return pr


def expected(st, sd):
    kv = dict(st["kv"]) if st["kv"] else {}
    o = {v: tuple(t) for v, t in (st["ord"] or {}).items()} if st["ord"] else {}
    ex = {"kv": kv, "ord": o, "k2k": {k: o[kv[k]] for k in kv}, "len": len(o),
          "iter": sorted(o), "keys": sorted(o.values())}
    if sd:
        ex["attrs"] = dict(kv)
        ex["dflt"] = st["ddef"]
        ex["call"] = "NotImplemented" if st["ddef"] == "none" else st["ddef"]
    return ex


def apply(d, name, args, obj, variant):
    """Apply one spec action to the real object; returns 'ok' / exception class name."""
    try:
        if name in ("SetItem", "SSetItem"):
            ks, v = args
            key = tuple(ks)
            if len(key) == 1 and variant % 2 == 0:
                key = key[0]          # scalar key form (the code tuple-ises it)
            d[key] = obj[v]
        elif name in ("DelItem", "DelMissing"):
            del d[args[0]]
        elif name in ("SDelItem", "SDelMissing"):
            k, how = args
            if how == "del":
                del d[k]
            else:
                delattr(d, k)
        else:
            raise tlc.MachineryError("unknown action %s" % name)
        return "ok"
    except KeyError:
        return "KeyError"             # (a subclass of the class the statement names is that class)
    except AttributeError:
        return "AttributeError"


def replay_graph(ctx, al, module, cfg, sd):
    d = tlc.scratch_dir("c15")
    dot = os.path.join(d, "g.dot")
    r = tlc.require_ok(tlc.run(module, cfg, dump_dot=dot), module,
                       need_actions=(("SSetItem", "SDelItem", "SDelMissing") if sd else
                                     ("SetItem", "DelItem", "DelMissing")))
    ctx.add_tlc(r, "%s full reachable graph" % module)
    nodes, inits, edges = tlaval.read_dot(dot)
    if len(nodes) != r.distinct:
        raise tlc.MachineryError("dot dump has %d nodes, TLC reported %d" % (len(nodes), r.distinct))
    parent, order, out = graphcover.cover(inits, edges)
    if len(parent) != len(nodes):
        raise tlc.MachineryError("state graph not connected from Init")
    labels = [tlaval.parse_label(e[2]) for e in edges]
    ctx.log("%s: %d states, %d transitions to replay" % (module, len(nodes), len(edges)))
    for ei, (src, dst, lab) in enumerate(edges):
        if sd:
            obj = Fresh(Strat, VALS)
            dd = al.StrategyDict("sd%d" % ei)
        else:
            obj = Fresh(Val, VALS)
            dd = al.MultiKeyDict()
        tag = tag_of
        path = graphcover.path_to(parent, src) + [ei]
        outcome = None
        for step, pi in enumerate(path):
            outcome = apply(dd, labels[pi][0], labels[pi][1], obj, ei + step)
        st = nodes[dst]
        got = project(dd, KEYS, list(obj.values()), tag, sd)
        exp = expected(st, sd)
        hist = [edges[pi][2] for pi in path]
        ctx.count(1, nontrivial_key=(module, ei) if len(path) >= 2 else None)
        if ei % 4001 == 0:
            ctx.sample({"module": module, "history": hist, "projection": got})
        bad = [k for k in exp if got.get(k) != exp[k]]
        if outcome != st["res"]:
            bad.append("outcome")
        if bad:
            ctx.violation("%s:%s:%s" % (module, labels[ei][0], bad[0]),
                          {"module": module, "history": hist, "expected": exp, "got": got,
                           "expected_outcome": st["res"], "outcome": outcome, "differs": bad})
    ctx.traces += len(edges)
    return len(nodes), len(edges)


def record_walk(ctx, al, sd, nkeys, nvals, length):
    rng = ctx.rng
    keys = ["k%d" % i for i in range(1, nkeys + 1)]
    vals = ["v%d" % i for i in range(1, nvals + 1)]
    if sd:
        obj = Fresh(Strat, vals)
        d = al.StrategyDict("walk")
    else:
        obj = Fresh(Val, vals)
        d = al.MultiKeyDict()
    tag = tag_of
    events = []
    for step in range(length):
        c = rng.random()
        if c < 0.6:
            n = rng.choice([1, 1, 1, 2, 2, 3, 4])
            ks = [rng.choice(keys) for _ in range(n)]
            v = rng.choice(vals)
            ev = {"op": "set", "ks": ks, "v": v}
            out = apply(d, "SSetItem", (ks, v), obj, rng.randrange(2))
        else:
            k = rng.choice(keys)
            how = "delattr" if (sd and rng.random() < 0.3) else "del"
            ev = {"op": how, "k": k}
            out = apply(d, "SDelItem", (k, how), obj, 0)
        pr = project(d, keys, list(obj.values()), tag, sd)
        ev.update({"res": out, "kv": sorted(pr["kv"].items()),
                   "k2k": [[k, list(t)] for k, t in sorted(pr["k2k"].items())],
                   "ord": [[v, list(t)] for v, t in sorted(pr["ord"].items())],
                   "len": pr["len"], "iter": len(set(pr["iter"])) if len(set(pr["iter"])) == len(pr["iter"]) else -1,
                   "nkeys": len(set(pr["keys"])) if len(set(pr["keys"])) == len(pr["keys"]) else -1,
                   "attrs": sorted(pr.get("attrs", {}).items()), "dflt": pr.get("dflt", "none"),
                   "call": pr.get("call", "none")})
        events.append(ev)
    return {"kind": "sd" if sd else "mk", "events": events}


def check(ctx):
    al = common.import_audiolazy()
    ctx.rule = ("M2: one replay per transition of the TLC state graph (BFS path to its source + the "
                "transition), non-trivial = path of >= 2 calls; M3: random histories validated by TLC")
    ctx.assumptions = ["keys are strings usable as attribute names and distinct from StrategyDict's own "
                       "attributes; values are hashable and pairwise unequal"]
    n1 = replay_graph(ctx, al, "MultiKeyDict", "MultiKeyDict_quick.cfg", False)
    n2 = replay_graph(ctx, al, "StrategyDict", "StrategyDict_quick.cfg", True)
    if ctx.thorough:      # 4 keys x 3 values x key tuples <= 2: full graphs again (65k + 223k transitions)
        replay_graph(ctx, al, "MultiKeyDict", "MultiKeyDict_thorough.cfg", False)
        replay_graph(ctx, al, "StrategyDict", "StrategyDict_thorough.cfg", True)
    # M3
    nwalks, length = (60, 200) if not ctx.thorough else (60, 300)
    batches = 1 if not ctx.thorough else 6          # one TLC run per batch (the JSON of a batch stays ~10 MB)
    for b in range(batches):
        m3_batch(ctx, al, nwalks, length)
    ctx.exhaustive = True


def m3_batch(ctx, al, nwalks, length):
    traces = []
    for i in range(nwalks):
        traces.append(record_walk(ctx, al, sd=(i % 2 == 1), nkeys=8, nvals=5, length=length))
    consts = {"Keys": "{" + ", ".join('"k%d"' % i for i in range(1, 9)) + "}",
              "Values": "{" + ", ".join('"v%d"' % i for i in range(1, 6)) + "}",
              "MaxTuple": "4"}
    acc, rej = tracecheck.run_traces(ctx, "MultiKeyDictTrace", consts, traces,
                                     invariants=("Accepted", "Coherent", "OneTuplePerValue",
                                                 "LenCountsValues", "DefaultRefines", "CallCallsDefault"),
                                     what="C15 recorded histories")
    ctx.traces += len(acc)
    ctx.count(len(traces) * length)
    ctx.nontrivial_count += len(acc)
    ctx.sample({"recorded_history_prefix": traces[1]["events"][:3]})
    ctx.log("M3: %d histories of %d calls: %d accepted, %d rejected" % (len(traces), length, len(acc), len(rej)))
    for tid, (l, clause) in sorted(rej.items()):
        tr = traces[tid - 1]
        ctx.violation("trace:%s:%s" % (tr["kind"], clause),
                      {"trace_kind": tr["kind"], "rejected_at_event": l, "failing_clause": clause,
                       "events_up_to_rejection": tr["events"][max(0, l - 4):l]})
